"""C03 - downloaded log and parameter tables equal the device tables.

Functions under contract: toc.TocFetcher.start/_new_packet_cb/_request_toc_element/_toc_fetch_finished, toc.Toc.add_element/
get_element/get_element_id/get_element_by_id/get_element_by_complete_name, log.LogTocElement.__init__, param.ParamTocElement.
__init__/mark_persistent/is_persistent/is_extended/get_readable_access, log.Log.refresh_toc/_new_packet_cb (reset branch)/
_send_reset_packet, param.Param.refresh_toc (incl. the nested refresh_done)/_disconnected/_connection_requested, param._ExtendedTypeFetcher.
__init__/_new_packet_cb/request_extended_types/set_callback/run/_close, toc.Toc.clear, toc.TocFetcher._disconnected/_stop_listening,
platformservice.PlatformService.fetch_platform_informations/_request_protocol_version/_crt_service_callback/_platform_callback/
get_protocol_version.

Style: histories of REAL calls on REAL objects (real constructors) against a device model written in the contract.  The device
holds a table T = [(type byte, group, name)], a checksum and answers whatever request the library transmits, in the generation
of that request (the firmware implements both); the contract injects duplicated / stale / delayed packets and finally compares
the library's table with T and the three lookups with each other.  The type tables LOG_TYPES / PARAM_TYPES and the flag bits
below are the peer's (firmware log.h / param.h), written down here independently of the library (trusted).

How the clauses of the design (DESIGN.md, C03, O1..O6) are decided
  O1 request encoding ............ request.v2 (every index 0..65535), request.v1 (0..255; larger refused, nothing sent)
  O2 download step / invariant ... info.reply.* (announced size 0..65535 / 0..255, checksum, trailing bytes), step.accept.* (reply for the
                                   outstanding index r, ANY 0 <= r < N <= 65535: exactly entry r gained, r+1 requested or completion),
                                   step.ignore.* (ANY other packet on the port - other index incl. later ones, repeated info reply,
                                   other channel: nothing changes, nothing sent).  The steps start from a state reached by real calls
                                   (start + info reply) moved to "entry r outstanding" with c.set - this is the inductive step of the
                                   representation invariant, which is how indices beyond the 8-bit boundary are covered.
  O3 completion .................. fetch.<kind>.n<N>.<fault> whole downloads for N = 0, 1, 2, 3, both generations (protocol version
                                   symbolic, switch at 4), faults none / dup / stale / info-again / other-channel, cache = recording stub
                                   that misses, or the real TocCache() without directories (.realcache); fetch.cache-hit;
                                   log.refresh_toc.* and param.refresh_toc.*: the same from the entry points the connection sequence
                                   calls, with every packet delivered to ALL callbacks registered on the port (class Bus)
  O4 element decoders ............ decode.<kind>.lenNN: every split of every total group+name length 0..25 (= all that fit a 30-byte
                                   packet after command, index, type and two NULs), every type code of the peer table, every NUL-free
                                   byte content, every index: complete, not a sample
  O5 lookup agreement ............ toc.lookups.K (K = 0..3 entries, symbolic names and indices incl. 0 and > 255, every way the entries
                                   share groups), and again on every downloaded table in fetch.* / log.* / param.*
  O6 persistence markers ......... xtype.step (one packet, any outstanding index / count), xtype.request (request encoding and attribution
                                   for any index 0..65535), param.refresh_toc.* (whole sequence: requests for exactly the extended
                                   entries, completion after the last answer, is_persistent() of every entry == device answer; also with
                                   the reply handled before send_packet has returned to the requesting thread (.early-reply) and with the
                                   table coming from the cache (.cache-hit, indices symbolic))
  O7 second use .................. log.reconnect.* / param.reconnect.*: a second connection on the same Log / Param object to a device with
                                   another table, checksum and protocol generation, after a complete or an interrupted first download:
                                   nothing of the first table, its cache or its completion callback survives; toc.clear (a cleared table
                                   object used again); platform.version (the protocol version the generation switch tests is the one THIS
                                   device reports, -1 for a device that does not identify itself; two connections in a row)

ASSUMED
 * the device answers a request for index i with the entry i of one fixed table T, well formed: type | group | NUL | name | NUL, group
   and name NUL-free, type code in the peer table (an unknown code raises KeyError in the element constructor, the dispatcher
   swallows it and the download stalls: outside the property); (group, name) pairs of T are unique; names contain no "." (C
   identifiers) - with a "." in a name get_element_by_complete_name cannot find the entry (split('.') yields three parts);
 * packets that are too short to hold the index field are not sent by the device (they would raise struct.error / IndexError out of
   the callback; the dispatcher swallows it, nothing changes);
 * the dispatcher delivers a packet to the callbacks registered when its dispatch starts, in order (C07); a callback unregistered
   during completion therefore does not see a later duplicate;
 * protocol generation: the firmware offers the 16-bit commands (2/3) from protocol version 4 on (peer fact);
 * cache hit: the cached table equals the device table (C11).

BOUNDED (stated per contract): whole-download histories use tables of 0..3 entries (0..5 in the thorough tier) with fixed name lengths
 and, beyond entry 0 of one-entry tables, two type codes per entry; table sizes up to 65535 and all indices are covered by the step
 contracts, all lengths and type codes by decode.*.  The thorough tier adds (thorough_only=True, same clauses): fetch.*.n4/n5, step.accept
 with the longest namings (24 / 25 bytes) and an empty group, step.ignore for ten more payload lengths, info.reply with 1/3/8/23 trailing
 bytes, toc.lookups.4, param.refresh_toc.n3.*, log.reconnect.n2-then-n3.*, param.reconnect.n2-then-n2.*.

NOT COVERED (and why)
 * the path from the completion callbacks to Crazyflie.connected (log -> memories -> parameters -> connected.call) belongs to C02;
 * real threads: _ExtendedTypeFetcher.run is executed one loop iteration at a time in two explicit schedules: "one iteration, then
   the reply" (the thread really blocks on its lock until the reply is handled on the dispatcher thread) and "the reply is handled
   inside cf.send_packet" (.early-reply: the dispatcher thread is faster than the return of the transmitting call).  The TOC
   download itself has no such race: every request after the first is transmitted BY the dispatcher thread, which also handles
   the reply.  Pre-emption between two arbitrary statements is not explored;
 * a connection that ends while a persistence-marker request is in flight: the _ExtendedTypeFetcher thread and its port callback
   stay behind with the request outstanding (known finding of C02, interrupted-extended.*.request-in-flight); the sessions contracts
   here interrupt the first connection during the table download or let it complete (after completion the left-over callback has no
   outstanding index and ignores every packet: delivered to it in param.reconnect.*);
 * TocFetcher._new_packet_cb does not look at the command byte of TOC-channel packets (only at the index field); with one device per
   connection no packet other than the item reply can carry the outstanding index (a table-info reply carries N > index), so the
   step.ignore contracts quantify over "other index / repeated info reply / other channel" and not over "same index, other command";
 * retransmission of unanswered requests (expected_reply patterns are checked here, the retry machinery is C10);
 * symbolic-LENGTH names: lengths are enumerated exhaustively instead (decode.*), whole histories use fixed lengths.

FINDING (unchanged tree, see section 9 at the end): xtype.foreign-command.
"""
from pyvc.api import contract

# The external calls that belong to the download protocol.  Bookkeeping on the connection-state callbacks of the Crazyflie
# object (a fetcher may register on `cf.disconnected` to abandon the download when the link goes away) is not part of it and
# is not constrained by these clauses.
PROTOCOL_CALLS = "tuple([x for x in calls() if not x.startswith('cf.disconnected.')])"

TOC = 'cflib.crazyflie.toc'
LOG = 'cflib.crazyflie.log'
PAR = 'cflib.crazyflie.param'
STK = 'cflib.crtp.crtpstack'
TCA = 'cflib.crazyflie.toccache'

ELEMENT = {'log': LOG + ':LogTocElement', 'param': PAR + ':ParamTocElement'}
PORT = {'log': 5, 'param': 2}

# ---- the peer's tables (Crazyflie firmware log.h / param.h; stated here independently of the library) ----
LOG_TYPES = ((1, 'uint8_t', '<B'), (2, 'uint16_t', '<H'), (3, 'uint32_t', '<L'), (4, 'int8_t', '<b'),
             (5, 'int16_t', '<h'), (6, 'int32_t', '<i'), (7, 'float', '<f'), (8, 'FP16', '<e'))
# low nibble of the parameter type byte: bit3 unsigned, bit2 float, bits0-1 log2(size)
PARAM_TYPES = ((0x08, 'uint8_t', '<B'), (0x09, 'uint16_t', '<H'), (0x0A, 'uint32_t', '<L'), (0x0B, 'uint64_t', '<Q'),
               (0x00, 'int8_t', '<b'), (0x01, 'int16_t', '<h'), (0x02, 'int32_t', '<i'), (0x03, 'int64_t', '<q'),
               (0x05, 'FP16', ''), (0x06, 'float', '<f'), (0x07, 'double', '<d'))
# flag bits of the parameter type byte: 0x40 read-only, 0x10 extended type information available (0x20 core, 0x80 group marker:
# no meaning for the table); a log type byte carries the code only (no access flags: access == 0)

FETCH_F = [TOC + ':TocFetcher.start', TOC + ':TocFetcher._new_packet_cb', TOC + ':TocFetcher._request_toc_element',
           TOC + ':TocFetcher._toc_fetch_finished', TOC + ':Toc.add_element']


def valid_type(kind, t):
    if kind == 'log':
        return '1 <= %s <= 8' % t
    return '(%s & 0x0F) in (0, 1, 2, 3, 5, 6, 7, 8, 9, 10, 11)' % t


def element_spec(c, kind, e, t, ident, g, n):
    """post-conditions on the library element `e` for the device entry (type byte t, index ident, group g, name n);
    all arguments are names in the spec namespace"""
    out = ['%s.ident == %s' % (e, ident),
           "%s.group == %s.decode('ISO-8859-1') and %s.name == %s.decode('ISO-8859-1')" % (e, g, e, n)]
    if kind == 'log':
        c.let('LOG_TYPES', LOG_TYPES)
        out.append('all(implies(%s == r[0], %s.ctype == r[1] and %s.pytype == r[2]) for r in LOG_TYPES)' % (t, e, e))
        out.append('%s.access == 0' % e)
    else:
        c.let('PARAM_TYPES', PARAM_TYPES)
        out.append('all(implies((%s & 0x0F) == r[0], %s.ctype == r[1] and %s.pytype == r[2]) for r in PARAM_TYPES)' % (t, e, e))
        out.append('%s.access == (1 if (%s & 0x40) != 0 else 0)' % (e, t))
        out.append('%s.get_readable_access() in ("RO", "RW") and iff(%s.get_readable_access() == "RO", (%s & 0x40) != 0)' % (e, e, t))
        out.append('%s.extended == ((%s & 0x10) != 0) and %s.is_extended() == ((%s & 0x10) != 0)' % (e, t, e, t))
        out.append('%s.persistent is False and %s.is_persistent() is False' % (e, e))
    return out


def fetcher(c, kind, cache='stub'):
    ver = c.int('ver', -1, 255)
    cf = c.ext('cf', returns={'platform.get_protocol_version': ver})
    toc = c.new(TOC + ':Toc')
    if cache == 'stub':
        ca = c.ext('cache', returns={'fetch': None})
    else:
        ca = c.new(TCA + ':TocCache')
    fin = c.ext('finished')
    f = c.new(TOC + ':TocFetcher', cf, c.cls(ELEMENT[kind]), PORT[kind], toc, fin, ca)
    c.let('f', f), c.let('toc', toc), c.let('PORT', PORT[kind])
    c.reset_trace()
    return f, toc


def packet(c, port, channel, data_expr, name='rdata'):
    c.snapshot(name, data_expr)
    return c.new(STK + ':CRTPPacket', (port << 4) | channel, c.get(name))


def last_request(c, nth):
    """the nth (0-based) packet handed to cf.send_packet so far -> bound as `rq` / `rq_kw`"""
    c.snapshot('rq', "sent('cf.send_packet')[%d][1][0]" % nth)
    c.snapshot('rq_kw', "sent('cf.send_packet')[%d][2]" % nth)


# ------------------------------------------------------------------------------------------------ 1. request encoding

@contract('C03', 'request.v2', [TOC + ':TocFetcher._request_toc_element'],
          clause='current generation: the request for entry i carries i as a 16-bit little-endian index, for every 0 <= i < 65536 '
                 '(255/256 are not special), on the TOC channel of the table\'s port; the retry pattern is the request itself')
def request_v2(c):
    kind = c.choice('kind', ['log', 'param'])
    f, toc = fetcher(c, kind)
    c.set(f, '_useV2', True)
    c.int('i', 0, 65535)
    c.call((f, '_request_toc_element'), c.get('i'))
    c.ensure('no-exception', 'raised is None')
    c.ensure('exactly-one-packet-nothing-else', "len(trace) == 1 and len(sent('cf.send_packet')) == 1")
    last_request(c, 0)
    c.ensure('port-and-channel', 'rq.port == PORT and rq.channel == 0')
    c.ensure('layout', "bytes(rq.data) == pack('<BH', 2, i)")
    c.ensure('device-decodes-the-index', "unpack('<H', bytes(rq.data[1:3]))[0] == i and rq.data[0] == 2")
    c.ensure('retry-pattern', "tuple(rq_kw['expected_reply']) == tuple(rq.data)")


@contract('C03', 'request.v1', [TOC + ':TocFetcher._request_toc_element'],
          clause='legacy generation: the request for entry i < 256 is (0, i); an index that does not fit the one-byte field is '
                 'refused (nothing transmitted), never aliased to another entry')
def request_v1(c):
    kind = c.choice('kind', ['log', 'param'])
    f, toc = fetcher(c, kind)
    c.set(f, '_useV2', False)
    c.int('i', 0, 65535)
    c.call((f, '_request_toc_element'), c.get('i'))
    c.ensure('raises-iff-unrepresentable', 'iff(raised is None, i < 256)')
    if c.get('raised') is None:
        c.ensure('exactly-one-packet-nothing-else', "len(trace) == 1 and len(sent('cf.send_packet')) == 1")
        last_request(c, 0)
        c.ensure('port-and-channel', 'rq.port == PORT and rq.channel == 0')
        c.ensure('layout', "bytes(rq.data) == pack('<BB', 0, i)")
        c.ensure('retry-pattern', "tuple(rq_kw['expected_reply']) == tuple(rq.data)")
    else:
        c.ensure('refused-with-ValueError-nothing-sent', "raised == 'ValueError' and len(trace) == 0")


# ------------------------------------------------------------------------------------------------ 2. one reply in state GET_TOC_ELEMENT

def in_download(c, kind, v2, with_old=True):
    """A real fetcher brought to the item download by real calls (start + info reply announcing N entries), then moved to
    'entry r is outstanding' (0 <= r < N, r and N symbolic, beyond the 8-bit boundary for the current generation) with
    c.set - the abstraction of the r earlier steps, justified by the step contracts themselves (inductive invariant)."""
    f, toc = fetcher(c, kind)
    c.require('ver >= 4' if v2 else 'ver < 4')
    c.call((f, 'start'))
    c.require('raised is None')
    c.int('N', 1, 65535 if v2 else 255)
    c.int('crc', 0, 2 ** 32 - 1)
    pk = packet(c, PORT[kind], 0, "pack('<BHI', 3, N, crc)" if v2 else "pack('<BBI', 1, N, crc)", 'info')
    c.call((f, '_new_packet_cb'), pk)
    c.require('raised is None')
    c.int('r', 0, 65534 if v2 else 254)
    c.require('r < N')
    c.set(f, 'requested_index', c.get('r'))
    if with_old:
        # one entry downloaded earlier (any other index)
        c.int('r_old', 0, 65535)
        c.require('r_old != r')
        old = c.new(ELEMENT[kind], c.get('r_old'), c.snapshot('old_data', "bytearray([%d]) + b'og' + bytes([0]) + b'on' + bytes([0])" % (7 if kind == 'log' else 6)))
        c.let('old', old)
        c.invoke((toc, 'add_element'), old)
    c.reset_trace()
    return f, toc


def entries_of(c):
    """all elements of the library table, in insertion order -> `entries`"""
    c.snapshot('entries', 'tuple(e for grp in toc.toc.values() for e in grp.values())')


def _step_accept(kind, v2, lg, ln, **opts):
    @contract('C03', 'step.accept.%s.%s.g%dn%d' % (kind, 'v2' if v2 else 'v1', lg, ln), FETCH_F + [ELEMENT[kind] + '.__init__'],
              clause='download step, reply for the outstanding index r (any 0 <= r < N, N up to 65535 resp. 255): the table gains exactly the '
                     'device entry r (index, group, name, type, access) and keeps the others; then either entry r+1 is requested (and '
                     'nothing else happens) or, after the last entry, the table is handed to the cache and completion is signalled once',
              bounded='group/name lengths %d/%d (all lengths: decode.* contracts); one earlier entry in the table' % (lg, ln), **opts)
    def k(c):
        f, toc = in_download(c, kind, v2)
        c.int('t', 0, 255)
        c.require(valid_type(kind, 't'))
        c.bytes('g', lg), c.bytes('n', ln)
        c.require('all(b != 0 for b in g) and all(b != 0 for b in n)')
        c.require("not (g == b'og' and n == b'on')")        # device names are unique
        head = "pack('<BH', 2, r)" if v2 else "pack('<BB', 0, r)"
        pk = packet(c, PORT[kind], 0, head + " + bytes([t]) + g + bytes([0]) + n + bytes([0])")
        c.call((f, '_new_packet_cb'), pk)
        c.ensure('no-exception', 'raised is None')
        entries_of(c)
        c.ensure('one-entry-gained-others-kept', 'len(entries) == 2 and sum(1 for e in entries if e is old) == 1')
        c.snapshot('new', '[e for e in entries if e is not old][0]')
        for i, s in enumerate(element_spec(c, kind, 'new', 't', 'r', 'g', 'n')):
            c.ensure('new-entry-is-device-entry-%d' % i, s)
        c.ensure('old-entry-untouched', "old.ident == r_old and old.group == 'og' and old.name == 'on'")
        c.ensure('announced-size-and-checksum-kept', 'f.nbr_of_items == N and f._crc == crc')
        last = bool(c.concretize('r == N - 1'))
        if not last:
            c.ensure('next-index-outstanding', 'f.requested_index == r + 1 and f.state == "GET_TOC_ELEMENT"')
            c.ensure('exactly-one-request-nothing-else', "len(trace) == 1 and calls() == ('cf.send_packet',)")
            last_request(c, 0)
            c.ensure('request-is-for-r+1', "rq.port == PORT and rq.channel == 0 and bytes(rq.data) == " +
                     ("pack('<BH', 2, r + 1)" if v2 else "pack('<BB', 0, r + 1)"))
            c.ensure('retry-pattern', "tuple(rq_kw['expected_reply']) == tuple(rq.data)")
        else:
            c.ensure('completion-sequence', PROTOCOL_CALLS + " == ('cache.insert', 'cf.remove_port_callback', 'finished')")
            c.ensure('nothing-transmitted', "len(sent('cf.send_packet')) == 0")
            c.ensure('cache-gets-checksum-and-table', "sent('cache.insert')[0][1][0] == crc and sent('cache.insert')[0][1][1] is toc.toc")
            c.ensure('own-callback-unregistered', "sent('cf.remove_port_callback')[0][1][0] == PORT and "
                     "sent('cf.remove_port_callback')[0][1][1] == f._new_packet_cb")
    return k


for _kind in ('log', 'param'):
    for _v2 in (True, False):
        _step_accept(_kind, _v2, 3, 2)
_step_accept('log', True, 1, 1)
_step_accept('param', True, 1, 1)


def _step_ignore(kind, v2, L, **opts):
    @contract('C03', 'step.ignore.%s.%s.len%d' % (kind, 'v2' if v2 else 'v1', L), [TOC + ':TocFetcher._new_packet_cb'],
              clause='download step, any other packet on the port - a reply carrying another index (duplicate of an earlier reply, delayed '
                     'reply to an earlier request, reply for a later index), a repeated table-info reply, a packet on another '
                     'channel - changes nothing and transmits nothing, whatever its content',
              bounded='packet payload length %d (3/2 = index only, 9, 30 = maximum); content symbolic' % L,
              max_paths=200, **opts)        # 2-3 paths when the clause holds; a budget for trees in which junk reaches the decoders
    def k(c):
        f, toc = in_download(c, kind, v2)
        c.int('chan', 0, 3)
        c.bytes('raw', L)
        what = c.choice('what', ['other-index', 'other-channel'] + (['info-again'] if L >= 7 else []))
        if what == 'other-index':
            c.require('chan == 0')
            c.require(("unpack('<H', raw[1:3])[0] != r") if v2 else 'raw[1] != r')
        elif what == 'info-again':
            c.require('chan == 0')
            c.require(("raw[0:7] == pack('<BHI', 3, N, crc)") if v2 else "raw[0:6] == pack('<BBI', 1, N, crc)")
        else:
            c.require('chan != 0')
        pk = packet(c, PORT[kind], 0, 'raw')
        c.set(pk, 'channel', c.get('chan'))
        c.call((f, '_new_packet_cb'), pk)
        c.ensure('no-exception', 'raised is None')
        c.ensure('nothing-transmitted-nothing-signalled', 'len(trace) == 0')
        entries_of(c)
        c.ensure('table-unchanged', "len(entries) == 1 and entries[0] is old and old.ident == r_old and old.group == 'og' and old.name == 'on'")
        c.ensure('fetcher-state-unchanged', 'f.requested_index == r and f.nbr_of_items == N and f._crc == crc and f.state == "GET_TOC_ELEMENT"')
    return k


for _kind in ('log', 'param'):
    for _v2 in (True, False):
        for _L in ((3, 9, 30) if _v2 else (2, 9, 30)):
            _step_ignore(_kind, _v2, _L)


# ------------------------------------------------------------------------------------------------ 3. element decoders, every shape that fits a packet

MAX_NAMING = 25         # 30 payload bytes - command - 1-byte index - type - two NULs  (24 with the 2-byte index)


def _decode(kind, total):
    @contract('C03', 'decode.%s.len%02d' % (kind, total), [ELEMENT[kind] + '.__init__'],
              clause='an item reply body  type | group | NUL | name | NUL  decodes to exactly the device entry: group and name (ISO-8859-1, any '
                     'NUL-free bytes), C type and unpack format of the type code, access, extended flag, index as given; every type code of '
                     'the peer table, every index 0..65535; group+name length %d in every split (lengths 0..%d together are all that fit a packet)' % (total, MAX_NAMING))
    def k(c):
        lg = c.choice('len_group', list(range(total + 1)))
        ln = total - lg
        c.int('t', 0, 255)
        c.require(valid_type(kind, 't'))
        c.int('i', 0, 65535)
        c.bytes('g', lg), c.bytes('n', ln)
        c.require('all(b != 0 for b in g) and all(b != 0 for b in n)')
        c.snapshot('data', 'bytearray([t]) + g + bytes([0]) + n + bytes([0])')
        c.call(ELEMENT[kind], c.get('i'), c.get('data'))
        c.ensure('no-exception', 'raised is None')
        c.snapshot('e', 'result')
        for j, s in enumerate(element_spec(c, kind, 'e', 't', 'i', 'g', 'n')):
            c.ensure('device-entry-%d' % j, s)
    return k


for _kind in ('log', 'param'):
    for _total in range(MAX_NAMING + 1):
        _decode(_kind, _total)


# ------------------------------------------------------------------------------------------------ 4. whole downloads (histories)

SHAPES = ((2, 1), (2, 2), (1, 3), (3, 1), (1, 2))        # (group length, name length) of device entries 0, 1, 2, 3, 4
NARROW = {'log': ((3, 8), (1, 7), (2, 6), (4, 5), (7, 2)), 'param': ((6,), (9,), (3,), (10,), (1,))}


def device_table(c, kind, N, wide_types, sfx='', shapes=SHAPES, one_type=False):
    """the device table T as contract inputs: type byte, group, name per entry (names unique: entries 0 and 1 may
    share the group (symbolic equality), their names differ in length; entry 2 has another group length; entries 2 and 4
    may share the group, their names differ in length; entry 3 has a group length of its own).
    `sfx` distinguishes the tables of two sessions (inputs t0a, g0a ... of an earlier session, N/crc likewise)."""
    for k in range(N):
        c.int('t%d%s' % (k, sfx), 0, 255)
        if wide_types and k == 0:
            c.require(valid_type(kind, 't0' + sfx))
        elif kind == 'log':
            c.require('t%d%s in %r' % (k, sfx, NARROW['log'][k][:1] if one_type else NARROW['log'][k]))
        else:
            c.require('(t%d%s & 0x0F) in %r' % (k, sfx, NARROW['param'][k]))
        lg, ln = shapes[k]
        c.bytes('g%d%s' % (k, sfx), lg), c.bytes('n%d%s' % (k, sfx), ln)
        c.require('all(b != 0 and b != 46 for b in g%d%s) and all(b != 0 and b != 46 for b in n%d%s)' % (k, sfx, k, sfx))
        c.snapshot('G%d%s' % (k, sfx), "g%d%s.decode('ISO-8859-1')" % (k, sfx))
        c.snapshot('M%d%s' % (k, sfx), "n%d%s.decode('ISO-8859-1')" % (k, sfx))
    c.int('crc' + sfx, 0, 2 ** 32 - 1)
    c.let('N' + sfx, N)


def device_answer(c, kind, N, sfx=''):
    """what the device answers to request `rq` (it implements both generations); returns (data expression, index or None)"""
    cmd = c.concretize('rq.data[0]')
    if cmd == 1:
        return "pack('<BBI', 1, N%s, crc%s)" % (sfx, sfx), None
    if cmd == 3:
        return "pack('<BHI', 3, N%s, crc%s)" % (sfx, sfx), None
    if cmd == 0:
        i = c.concretize('rq.data[1]')
        head = "pack('<BB', 0, %d)" % i
    else:
        i = c.concretize("unpack('<H', bytes(rq.data[1:3]))[0]")
        head = "pack('<BH', 2, %d)" % i
    if not 0 <= i < N:
        return head, i
    return head + " + bytes([t%d%s]) + g%d%s + bytes([0]) + n%d%s + bytes([0])" % (i, sfx, i, sfx, i, sfx), i


def check_table(c, kind, N, toc='toc', sfx=''):
    """the library table equals the device table, and the three lookups agree"""
    c.ensure('same-number-of-entries', 'sum(len(grp) for grp in %s.toc.values()) == N%s' % (toc, sfx))
    tocv = c.get(toc)
    for k in range(N):
        c.call((tocv, 'get_element'), c.get('G%d%s' % (k, sfx)), c.get('M%d%s' % (k, sfx)))
        c.ensure('entry-%d-present' % k, 'raised is None and result is not None')
        c.snapshot('e%d' % k, 'result')
        if c.get('e%d' % k) is None:
            continue
        for j, s in enumerate(element_spec(c, kind, 'e%d' % k, 't%d%s' % (k, sfx), str(k), 'g%d%s' % (k, sfx), 'n%d%s' % (k, sfx))):
            c.ensure('entry-%d-is-device-entry-%d' % (k, j), s)
        c.call((tocv, 'get_element_by_id'), k)
        c.ensure('lookup-by-index-%d-agrees' % k, 'raised is None and result is e%d' % k)
        c.call((tocv, 'get_element_by_complete_name'), c.snapshot('cn', "G%d%s + '.' + M%d%s" % (k, sfx, k, sfx)))
        c.ensure('lookup-by-complete-name-%d-agrees' % k, 'raised is None and result is e%d' % k)
        c.call((tocv, 'get_element_id'), c.get('cn'))
        c.ensure('index-by-complete-name-%d' % k, 'raised is None and result == %d' % k)


def _fetch(kind, N, fault, cache='stub', **opts):
    @contract('C03', 'fetch.%s.n%d.%s%s' % (kind, N, fault, '' if cache == 'stub' else '.realcache'),
              FETCH_F + [ELEMENT[kind] + '.__init__', TOC + ':Toc.get_element', TOC + ':Toc.get_element_by_id',
                         TOC + ':Toc.get_element_by_complete_name', TOC + ':Toc.get_element_id'],
              clause='a download against a device holding a table of %d entries (cache miss): the library asks for the table info and then for '
                     'each index once, in the generation negotiated (current iff protocol version >= 4), transmits nothing else; completion is '
                     'signalled exactly once, after which the library table has exactly the device entries with the device\'s index, '
                     'type and access, and lookup by (group, name), by index and by complete name agree; fault scenario: %s' % (N, fault),
              bounded='%d entries with group/name lengths %r; type code of entry 0 %s, of later entries one of two; '
                      'all lengths and type codes: decode.*; any index and table size: step.*' % (N, SHAPES[:N], 'any' if N == 1 else 'one of two'),
              max_paths=300 if N <= 3 else 1500,       # at most 128 paths (N <= 3) when the clauses hold; a budget for trees in which junk reaches the decoders
              **opts)
    def k(c):
        f, toc = fetcher(c, kind, cache)
        device_table(c, kind, N, wide_types=(N == 1))
        c.call((f, 'start'))
        c.ensure('start-no-exception', 'raised is None')
        c.ensure('registers-own-callback-then-asks-for-info', PROTOCOL_CALLS + " == ('cf.platform.get_protocol_version', 'cf.add_port_callback', 'cf.send_packet') "
                 "and sent('cf.add_port_callback')[0][1][0] == PORT and sent('cf.add_port_callback')[0][1][1] == f._new_packet_cb")
        answered = 0
        asked = []
        while answered < N + 3:
            c.snapshot('nreq', "len(sent('cf.send_packet'))")
            if c.concretize('nreq') != answered + 1:
                break
            last_request(c, answered)
            c.ensure('request-on-toc-channel-with-retry-pattern', "rq.port == PORT and rq.channel == 0 and tuple(rq_kw['expected_reply']) == tuple(rq.data)")
            c.ensure('generation-follows-protocol-version', 'rq.data[0] == ((3 if ver >= 4 else 1) if %d == 0 else (2 if ver >= 4 else 0))' % answered)
            data, idx = device_answer(c, kind, N)
            asked.append(idx)
            # ---- disturbances before the genuine answer
            if fault == 'stale' and idx is not None:
                v2 = c.concretize('rq.data[0]') == 2
                c.int('s%d' % answered, 0, 65535 if v2 else 255)
                c.require('s%d != %d' % (answered, idx))
                c.bytes('junk%d' % answered, 6)
                head = ("pack('<BH', 2, s%d)" if v2 else "pack('<BB', 0, s%d)") % answered
                c.call((f, '_new_packet_cb'), packet(c, PORT[kind], 0, head + ' + junk%d' % answered, 'stale'))
                c.ensure('stale-reply-tolerated', 'raised is None')
            if fault == 'info-again' and idx is not None:
                c.call((f, '_new_packet_cb'), packet(c, PORT[kind], 0, "pack('<BHI', 3, N, crc)" if c.concretize('rq.data[0]') == 2 else "pack('<BBI', 1, N, crc)", 'again'))
                c.ensure('repeated-info-reply-tolerated', 'raised is None')
            if fault == 'other-channel':
                c.int('ch%d' % answered, 1, 3)
                c.bytes('noise%d' % answered, 5)
                pk = packet(c, PORT[kind], 0, 'noise%d' % answered, 'noise')
                c.set(pk, 'channel', c.get('ch%d' % answered))
                c.call((f, '_new_packet_cb'), pk)
                c.ensure('other-channel-tolerated', 'raised is None')
            # ---- the genuine answer (twice in the dup scenario, unless the fetch completed and unregistered itself)
            c.call((f, '_new_packet_cb'), packet(c, PORT[kind], 0, data))
            c.ensure('reply-no-exception', 'raised is None')
            if fault == 'dup' and not [e for e in c.get('trace') if e[0] == 'cf.remove_port_callback']:
                c.call((f, '_new_packet_cb'), packet(c, PORT[kind], 0, data, 'rdata2'))
                c.ensure('duplicate-no-exception', 'raised is None')
            answered += 1
        c.let('asked', tuple(asked))
        c.ensure('info-then-each-index-once-in-order', 'asked == (None,) + tuple(range(N))')
        if cache == 'stub':
            c.ensure('nothing-else-happens', PROTOCOL_CALLS + " == ('cf.platform.get_protocol_version', 'cf.add_port_callback') + ('cf.send_packet', 'cache.fetch') + "
                     "('cf.send_packet',) * N + ('cache.insert', 'cf.remove_port_callback', 'finished')")
            c.ensure('cache-consulted-and-fed-with-device-checksum', "sent('cache.fetch')[0][1] == (crc,) and sent('cache.insert')[0][1][0] == crc "
                     "and sent('cache.insert')[0][1][1] is toc.toc")
        else:
            c.ensure('nothing-else-happens', PROTOCOL_CALLS + " == ('cf.platform.get_protocol_version', 'cf.add_port_callback') + "
                     "('cf.send_packet',) * (N + 1) + ('cf.remove_port_callback', 'finished')")
        c.ensure('completion-signalled-exactly-once', "len(sent('finished')) == 1 and sent('finished')[0][1] == ()")
        c.ensure('own-callback-unregistered', "sent('cf.remove_port_callback')[0][1][0] == PORT and sent('cf.remove_port_callback')[0][1][1] == f._new_packet_cb")
        check_table(c, kind, N)
    return k


for _kind in ('log', 'param'):
    for _N in (3, 2, 1, 0):
        for _fault in (('none', 'dup', 'stale', 'info-again', 'other-channel') if _N else ('none', 'other-channel')):
            _fetch(_kind, _N, _fault)
    _fetch(_kind, 2, 'none', cache='real')       # the real TocCache without directories: always a miss, insert is a no-op
    _fetch(_kind, 0, 'none', cache='real')
    # thorough tier: longer tables (the same clauses, larger bound)
    for _N, _fault in ((4, 'none'), (4, 'dup'), (4, 'stale'), (5, 'none'), (5, 'dup')):
        _fetch(_kind, _N, _fault, thorough_only=True)


# ------------------------------------------------------------------------------------------------ 5. the three lookups agree

TOC_F = [TOC + ':Toc.add_element', TOC + ':Toc.get_element', TOC + ':Toc.get_element_id', TOC + ':Toc.get_element_by_id',
         TOC + ':Toc.get_element_by_complete_name']


def _lookups(K, **opts):
    @contract('C03', 'toc.lookups.%d' % K, TOC_F,
              clause='for a table with unique indices and unique (group, name) pairs (names without "."), lookup by complete name, by '
                     '(group, name) and by index return the same entry, for every entry - whatever its index (0 and > 255 included) and '
                     'however the entries are spread over groups; names and indices not in the table yield None, never an exception',
              bounded='%d entries, group and name of 2 characters each (any characters 1..255 except "."); indices 0..65535' % K, **opts)
    def k(c):
        toc = c.new(TOC + ':Toc')
        c.let('toc', toc)
        for j in range(K + 1):          # entry K is NOT in the table
            c.str('g%d' % j, 2, lo=1, hi=255), c.str('n%d' % j, 2, lo=1, hi=255)
            c.int('i%d' % j, 0, 65535)
            c.require("all(ch != '.' for ch in g%d) and all(ch != '.' for ch in n%d)" % (j, j))
            for h in range(j):
                c.require('i%d != i%d and not (g%d == g%d and n%d == n%d)' % (j, h, j, h, j, h))
        for j in range(K):
            e = c.obj(LOG + ':LogTocElement', ident=c.get('i%d' % j), group=c.get('g%d' % j), name=c.get('n%d' % j))
            c.let('e%d' % j, e)
            c.call((toc, 'add_element'), e)
            c.ensure('added-%d' % j, 'raised is None')
        c.ensure('table-holds-all-entries', 'sum(len(grp) for grp in toc.toc.values()) == %d' % K)
        for j in range(K):
            c.call((toc, 'get_element'), c.get('g%d' % j), c.get('n%d' % j))
            c.ensure('by-group-and-name-%d' % j, 'raised is None and result is e%d' % j)
            c.call((toc, 'get_element_by_id'), c.get('i%d' % j))
            c.ensure('by-index-%d' % j, 'raised is None and result is e%d' % j)
            c.snapshot('cn', "g%d + '.' + n%d" % (j, j))
            c.call((toc, 'get_element_by_complete_name'), c.get('cn'))
            c.ensure('by-complete-name-%d' % j, 'raised is None and result is e%d' % j)
            c.call((toc, 'get_element_id'), c.get('cn'))
            c.ensure('index-of-complete-name-%d' % j, 'raised is None and result == i%d' % j)
        # an entry the device does not have
        c.call((toc, 'get_element'), c.get('g%d' % K), c.get('n%d' % K))
        c.ensure('unknown-group-name-is-None', 'raised is None and result is None')
        c.call((toc, 'get_element_by_id'), c.get('i%d' % K))
        c.ensure('unknown-index-is-None', 'raised is None and result is None')
        c.call((toc, 'get_element_by_complete_name'), c.snapshot('cn', "g%d + '.' + n%d" % (K, K)))
        c.ensure('unknown-complete-name-is-None', 'raised is None and result is None')
        c.call((toc, 'get_element_id'), c.get('cn'))
        c.ensure('unknown-complete-name-has-no-index', 'raised is None and result is None')
        c.call((toc, 'get_element_by_complete_name'), c.get('n%d' % K))
        c.ensure('name-without-group-is-None', 'raised is None and result is None')
    return k


for _K in (0, 1, 2, 3):
    _lookups(_K)


@contract('C03', 'toc.lookups.growing', TOC_F,
          clause='lookups agree at every moment of the download, not only at the end: after each added entry every entry added so far is found '
                 'by index, by (group, name) and by complete name, although lookups (e.g. for a value notification) already happened while the '
                 'table was shorter',
          bounded='3 entries added one by one, all lookups after each addition; names of 2 characters; indices 0..65535')
def lookups_growing(c):
    toc = c.new(TOC + ':Toc')
    c.let('toc', toc)
    K = 3
    for j in range(K):
        c.str('g%d' % j, 2, lo=1, hi=255), c.str('n%d' % j, 2, lo=1, hi=255)
        c.int('i%d' % j, 0, 65535)
        c.require("all(ch != '.' for ch in g%d) and all(ch != '.' for ch in n%d)" % (j, j))
        for h in range(j):
            c.require('i%d != i%d and not (g%d == g%d and n%d == n%d)' % (j, h, j, h, j, h))
    for j in range(K):
        # a lookup of an entry that is not there yet (as a notification for a not-yet-downloaded entry causes)
        c.call((toc, 'get_element_by_id'), c.get('i%d' % j))
        c.ensure('not-yet-present-%d' % j, 'raised is None and result is None')
        e = c.obj(LOG + ':LogTocElement', ident=c.get('i%d' % j), group=c.get('g%d' % j), name=c.get('n%d' % j))
        c.let('e%d' % j, e)
        c.call((toc, 'add_element'), e)
        for h in range(j + 1):
            c.call((toc, 'get_element_by_id'), c.get('i%d' % h))
            c.ensure('by-index-%d-after-%d-entries' % (h, j + 1), 'raised is None and result is e%d' % h)
            c.call((toc, 'get_element_by_complete_name'), c.snapshot('cn', "g%d + '.' + n%d" % (h, h)))
            c.ensure('by-complete-name-%d-after-%d-entries' % (h, j + 1), 'raised is None and result is e%d' % h)


# ------------------------------------------------------------------------------------------------ 6. cache hit

@contract('C03', 'fetch.cache-hit', FETCH_F,
          clause='cache present: when the cache returns a table for the checksum the device announces, that table becomes the library table, '
                 'completion is signalled exactly once, and no entry is requested from the device (that the cached table equals the device '
                 'table is the cache property C11)',
          bounded='cached table of one group with one entry')
def cache_hit(c):
    kind = c.choice('kind', ['log', 'param'])
    ver = c.int('ver', -1, 255)
    cf = c.ext('cf', returns={'platform.get_protocol_version': ver})
    toc = c.new(TOC + ':Toc')
    el = c.ext('cached_element')
    cached = c.dict([('grp', c.dict([('nm', el)]))])
    c.let('cached', cached)
    ca = c.ext('cache', returns={'fetch': cached})
    fin = c.ext('finished')
    f = c.new(TOC + ':TocFetcher', cf, c.cls(ELEMENT[kind]), PORT[kind], toc, fin, ca)
    c.let('f', f), c.let('toc', toc), c.let('PORT', PORT[kind])
    c.reset_trace()
    c.call((f, 'start'))
    c.require('raised is None')
    c.int('N', 0, 65535), c.int('crc', 0, 2 ** 32 - 1)
    c.require('implies(ver < 4, N <= 255)')
    v2 = bool(c.concretize('ver >= 4'))
    c.call((f, '_new_packet_cb'), packet(c, PORT[kind], 0, "pack('<BHI', 3, N, crc)" if v2 else "pack('<BBI', 1, N, crc)"))
    c.ensure('no-exception', 'raised is None')
    c.ensure('cache-asked-for-the-announced-checksum', "sent('cache.fetch')[0][1] == (crc,)")
    c.ensure('cached-table-adopted', 'toc.toc is cached')
    c.ensure('only-the-info-request-was-transmitted', "len(sent('cf.send_packet')) == 1")
    c.ensure('completion-exactly-once-and-nothing-else', PROTOCOL_CALLS + " == ('cf.platform.get_protocol_version', 'cf.add_port_callback', 'cf.send_packet', "
             "'cache.fetch', 'cf.remove_port_callback', 'finished')")
    c.ensure('own-callback-unregistered', "sent('cf.remove_port_callback')[0][1][0] == PORT and sent('cf.remove_port_callback')[0][1][1] == f._new_packet_cb")


# ------------------------------------------------------------------------------------------------ 7. Log.refresh_toc / Param.refresh_toc (what the connection sequence calls)

class Bus:
    """The Crazyflie object as seen by Log / Param / TocFetcher: records transmissions and keeps the port callbacks that
    were registered, so that the contract can deliver a received packet to every callback registered for its port at that
    moment, in registration order (the dispatcher's behaviour, property C07)."""

    def __init__(self, c, link=True, sessions=False):
        self.c = c
        self.cbs = []
        self.on_send = None         # optional effect of cf.send_packet (used to stop a service loop after one iteration)
        self.ver = c.int('ver', -1, 255)
        attrs = {'link': c.ext('link')} if link else {}
        version = self.ver
        if sessions:
            # several connections of one Crazyflie object: its REAL connection-state callback lists (so that what the library
            # registers on them runs when the contract signals a disconnect / a connection request), and a protocol version per
            # session (`vera` for the earlier session, `ver` for the last one)
            self.disconnected = attrs['disconnected'] = c.new('cflib.utils.callbacks:Caller')
            self.connection_requested = attrs['connection_requested'] = c.new('cflib.utils.callbacks:Caller')
            self.vera = c.int('vera', -1, 255)
            self.ver_now = self.vera

            def version(_i, _a, _k):
                return self.ver_now
        self.cf = c.ext('cf', attrs=attrs or None,
                        returns={'platform.get_protocol_version': version, 'add_port_callback': self._add,
                                 'remove_port_callback': self._remove, 'send_packet': self._send})

    @staticmethod
    def _same(a, b):
        if hasattr(a, 'self_obj'):
            return a.self_obj is b.self_obj and a.func is b.func
        return a == b

    def _send(self, _i, args, _kw):
        if self.on_send is not None:
            self.on_send()

    def _add(self, _i, args, _kw):
        self.cbs.append((args[0], args[1]))

    def _remove(self, _i, args, _kw):
        for it in list(self.cbs):
            if it[0] == args[0] and self._same(it[1], args[1]):
                self.cbs.remove(it)
                return

    def deliver(self, port, channel, data_expr, tag):
        c = self.c
        pk = packet(c, port, 0, data_expr, 'rx_' + tag)
        c.set(pk, 'channel', channel)
        for p, cb in list(self.cbs):
            if p == port:
                c.call(cb, pk)
                c.ensure('delivery-no-exception-' + tag, 'raised is None')
        c.snapshot('trace', 'trace')

    def deliver_nested(self, port, channel, data_expr, tag):
        """the same from inside a stub call of a running c.call (another thread's action at that point of the schedule);
        returns the exceptions the callbacks ended with"""
        c = self.c
        pk = packet(c, port, 0, data_expr, 'rx_' + tag)
        c.set(pk, 'channel', channel)
        return [c.invoke_catch(cb, pk) for p, cb in list(self.cbs) if p == port]

    def next_session(self):
        """the connection ends and the application connects again (Crazyflie.close_link / _link_error_cb, then open_link):
        `disconnected` and `connection_requested` are signalled to whatever the library registered on them"""
        c = self.c
        c.call((self.disconnected, 'call'), 'radio://0/80/2M')
        c.ensure('disconnect-handled', 'raised is None')
        c.call((self.connection_requested, 'call'), 'radio://0/80/2M')
        c.ensure('connection-request-handled', 'raised is None')
        self.ver_now = self.ver
        c.reset_trace()
        c.snapshot('trace', 'trace')


def serve_download(c, bus, kind, N, first, dup=False, sfx='', limit=None):
    """answer the TOC requests (transmission number `first` onwards) until no new one appears (or `limit` of them - the
    connection is interrupted then); returns their number"""
    answered = 0
    asked = []
    while answered < (N + 3 if limit is None else limit):
        if c.concretize("len(sent('cf.send_packet'))") != first + answered + 1:
            break
        last_request(c, first + answered)
        c.ensure('request-on-toc-channel-%d' % answered, "rq.port == PORT and rq.channel == 0 and tuple(rq_kw['expected_reply']) == tuple(rq.data)")
        c.ensure('generation-follows-protocol-version-%d' % answered,
                 'rq.data[0] == ((3 if ver%s >= 4 else 1) if %d == 0 else (2 if ver%s >= 4 else 0))' % (sfx, answered, sfx))
        data, idx = device_answer(c, kind, N, sfx)
        asked.append(idx)
        c.snapshot('before', "len(sent('cf.send_packet'))")
        bus.deliver(PORT[kind], 0, data, 'toc%d%s' % (answered, sfx))
        if dup:
            bus.deliver(PORT[kind], 0, data, 'toc%ddup%s' % (answered, sfx))
        answered += 1
    c.let('asked', tuple(asked))
    if limit is None:
        c.ensure('info-then-each-index-once-in-order', 'asked == (None,) + tuple(range(N%s))' % sfx)
    else:
        c.ensure('info-then-the-first-indices-in-order', 'asked == ((None,) + tuple(range(N%s)))[:%d]' % (sfx, limit))
    return answered


def _log_refresh(N, dup):
    @contract('C03', 'log.refresh_toc.n%d%s' % (N, '.dup' if dup else ''),
              FETCH_F + [LOG + ':Log.refresh_toc', LOG + ':Log._new_packet_cb', LOG + ':Log._send_reset_packet', LOG + ':LogTocElement.__init__'],
              clause='log table, from Log.refresh_toc (as called by the connection sequence) to the completion callback: the log subsystem is '
                     'reset, then the table is downloaded once - a duplicated reset acknowledgement does not start a second download - and when '
                     'the completion callback runs Log.toc equals the device table; packets are delivered to every callback registered on the '
                     'log port (the Log object itself and the fetcher)%s' % ('; every reply arrives twice' if dup else ''),
              bounded='%d entries, lengths %r, two type codes per entry' % (N, SHAPES[:N]), max_paths=300)
    def k(c):
        kind = 'log'
        bus = Bus(c)
        log = c.new(LOG + ':Log', bus.cf)
        c.let('log', log), c.let('PORT', 5)
        device_table(c, kind, N, wide_types=False)
        done = c.ext('toc_done')
        cache = c.ext('cache', returns={'fetch': None})
        c.reset_trace()
        c.call((log, 'refresh_toc'), done, cache)
        c.ensure('refresh-no-exception', 'raised is None')
        c.ensure('only-the-reset-request-is-sent', "len(sent('cf.send_packet')) == 1 and len(sent('toc_done')) == 0")
        last_request(c, 0)
        c.ensure('reset-request', "rq.port == 5 and rq.channel == 1 and bytes(rq.data) == bytes([5]) and tuple(rq_kw['expected_reply']) == (5,)")
        c.ensure('old-table-dropped', 'log.toc is None')
        bus.deliver(5, 1, 'bytes([5, 0, 0])', 'reset')
        c.ensure('download-started', "len(sent('cf.send_packet')) == 2")
        if dup:
            bus.deliver(5, 1, 'bytes([5, 0, 0])', 'resetdup')
            c.ensure('duplicate-reset-ack-starts-nothing', "len(sent('cf.send_packet')) == 2")
        serve_download(c, bus, kind, N, 1, dup)
        c.ensure('completion-signalled-exactly-once', "len(sent('toc_done')) == 1 and sent('toc_done')[0][1] == ()")
        c.ensure('transmissions-are-reset-info-and-one-per-entry', "len(sent('cf.send_packet')) == N + 2")
        c.ensure('cache-fed-before-completion', "[n for n in calls() if n in ('cache.insert', 'toc_done')] == ['cache.insert', 'toc_done'] "
                 "and sent('cache.insert')[0][1][0] == crc and sent('cache.insert')[0][1][1] is log.toc.toc")
        c.let('NCB', len(bus.cbs))
        c.ensure('fetcher-unregistered-log-still-listening', 'NCB == 1')
        c.let('toc', c.getfield(log, 'toc'))
        check_table(c, kind, N)
    return k


for _N in (2, 1, 0):
    _log_refresh(_N, False)
    _log_refresh(_N, True)


XTF = PAR + ':_ExtendedTypeFetcher'
PARAM_F = FETCH_F + [PAR + ':Param.refresh_toc', PAR + ':ParamTocElement.__init__', PAR + ':ParamTocElement.mark_persistent',
                     XTF + '.__init__', XTF + '._new_packet_cb', XTF + '.request_extended_types', XTF + '.set_callback', XTF + '.run', XTF + '._close']


def sequential_locks(c):
    """The threading.Lock and queue.Queue objects that param.py creates during the run are the sequential models of the
    engine in BOTH back ends (same semantics; a thread that would block for ever ends with the pseudo exception Deadlock at
    once instead of after the native call time-out)."""
    n = []

    def mk_queue(*_a):
        n.append(1)
        return c.queue('par_queue%d' % len(n))

    def mk_lock(*_a):
        n.append(1)
        return c.lock('par_lock%d' % len(n))
    c.patch(PAR + ':Queue', c.ext('Queue', returns={'()': mk_queue}))
    c.patch(PAR + ':Lock', c.ext('Lock', returns={'()': mk_lock}))


def serve_markers(c, bus, ext, first_tx, fault, ident=str, pers='pers%d'):
    """The persistence-marker phase of a parameter download: `ext` = positions of the device entries flagged as extended,
    ident(j) = spec expression of the index of entry j, pers % j = name of the device's marker byte of entry j, first_tx =
    number of transmissions before the first marker request.  The requesting thread is run one loop iteration at a time.
    fault: none | dup (every reply twice) | stale (a reply for another index and a read reply first) | early-reply (the
    reply is handled by the dispatcher thread before cf.send_packet has returned to the requesting thread: explicit schedule)"""
    c.ensure('completion-waits-for-the-markers', "len(sent('toc_done')) == 0")
    c.ensure('marker-fetcher-started-once', "len(sent('thread:_ExtendedTypeFetcher.start')) == 1")
    if not c.concretize("len(sent('thread:_ExtendedTypeFetcher.start')) >= 1"):
        return          # (the obligation above has failed)
    c.snapshot('xf', "sent('thread:_ExtendedTypeFetcher.start')[0][1][0]")
    xf = c.get('xf')
    c.snapshot('queued', 'tuple(bytes(p.data) for p in xf.request_queue.queue)')
    c.snapshot('EXT_ID', '(%s,)' % ', '.join(ident(j) for j in ext))
    c.ensure('one-marker-request-per-extended-entry-carrying-its-index', "queued == tuple(pack('<BH', 2, j) for j in EXT_ID)")
    c.ensure('marker-requests-on-misc-channel', 'all(p.port == 2 and p.channel == 3 for p in xf.request_queue.queue)')
    for pos, j in enumerate(ext):
        # one iteration of the thread's loop: it ends when the request has been handed to send_packet
        c.set(xf, '_should_close', False)
        nested = []
        if fault == 'early-reply':
            def effect(j=j):
                c.set(xf, '_should_close', True)
                nested.extend(bus.deliver_nested(2, 3, "pack('<BHB', 2, %s, %s)" % (ident(j), pers % j), 'x%d' % j))
            bus.on_send = effect
        else:
            bus.on_send = lambda: c.set(xf, '_should_close', True)
        c.snapshot('before', "len(sent('cf.send_packet'))")
        c.call((xf, 'run'))
        bus.on_send = None
        c.ensure('marker-request-%d-transmitted' % j, "raised is None and len(sent('cf.send_packet')) == before + 1")
        if not c.concretize("len(sent('cf.send_packet')) == before + 1"):
            break           # (the obligation above has failed: the requesting thread is stuck)
        last_request(c, first_tx + pos)
        c.ensure('marker-request-%d-layout' % j, "rq.port == 2 and rq.channel == 3 and bytes(rq.data) == pack('<BH', 2, %s) and "
                 "tuple(rq_kw['expected_reply']) == tuple(rq.data)" % ident(j))
        if fault == 'stale':
            # a reply for another index (e.g. a duplicate of an earlier answer) and a packet of another channel
            c.int('sx%d' % j, 0, 65535), c.int('sb%d' % j, 0, 255)
            c.require('sx%d != %s' % (j, ident(j)))
            bus.deliver(2, 3, "pack('<BHB', 2, sx%d, sb%d)" % (j, j), 'xstale%d' % j)
            bus.deliver(2, 1, "pack('<HB', %s, 1)" % ident(j), 'xread%d' % j)
            c.ensure('nothing-changes-on-a-stale-marker-reply-%d' % j, "len(sent('toc_done')) == 0 and len(sent('cf.send_packet')) == before + 1")
        if fault == 'early-reply':
            c.let('nested_exc', tuple(nested))
            c.ensure('early-reply-%d-handled-without-exception' % j, 'len(nested_exc) >= 1 and all(x is None for x in nested_exc)')
        else:
            bus.deliver(2, 3, "pack('<BHB', 2, %s, %s)" % (ident(j), pers % j), 'x%d' % j)
        if fault == 'dup':
            bus.deliver(2, 3, "pack('<BHB', 2, %s, %s)" % (ident(j), pers % j), 'x%ddup' % j)
        c.ensure('completion-after-the-last-marker-only-%d' % j, "len(sent('toc_done')) == %d" % (1 if pos == len(ext) - 1 else 0))
        c.ensure('marker-request-lock-free-%d' % j, 'not xf._lock.locked()')
    c.ensure('no-marker-request-left', 'xf.request_queue.qsize() == 0')


def check_param_table(c, N, sfx=''):
    """the parameter table, including the persistence markers, when "connected" is signalled (toc = Param.toc)"""
    kind = 'param'
    c.ensure('same-number-of-entries', 'sum(len(grp) for grp in toc.toc.values()) == N%s' % sfx)
    for j in range(N):
        c.call((c.get('toc'), 'get_element'), c.get('G%d%s' % (j, sfx)), c.get('M%d%s' % (j, sfx)))
        c.ensure('entry-%d-present' % j, 'raised is None and result is not None')
        c.snapshot('e%d' % j, 'result')
        if c.get('e%d' % j) is None:
            continue
        specs = element_spec(c, kind, 'e%d' % j, 't%d%s' % (j, sfx), str(j), 'g%d%s' % (j, sfx), 'n%d%s' % (j, sfx))[:-1]
        specs.append('e%d.is_persistent() == ((t%d%s & 0x10) != 0 and pers%d%s == 1)' % (j, j, sfx, j, sfx))
        for h, s in enumerate(specs):
            c.ensure('entry-%d-is-device-entry-%d' % (j, h), s)
        c.call((c.get('toc'), 'get_element_by_id'), j)
        c.ensure('lookup-by-index-%d-agrees' % j, 'raised is None and result is e%d' % j)
        c.call((c.get('toc'), 'get_element_by_complete_name'), c.snapshot('cn', "G%d%s + '.' + M%d%s" % (j, sfx, j, sfx)))
        c.ensure('lookup-by-complete-name-%d-agrees' % j, 'raised is None and result is e%d' % j)


def _param_refresh(N, fault, **opts):
    @contract('C03', 'param.refresh_toc.n%d.%s' % (N, fault), PARAM_F,
              clause='parameter table, from Param.refresh_toc (as called by the connection sequence) to the completion callback (which signals '
                     '"connected"): the table is downloaded, then the persistence marker of exactly the entries the device flags as extended is '
                     'requested, one request per such entry carrying its index; when the completion callback runs - exactly once, and not before '
                     'the last marker arrived - Param.toc equals the device table and is_persistent() of every entry is the device\'s answer '
                     '(False for entries that are not extended); fault scenario: %s' % fault,
              bounded='%d entries, lengths %r, one type nibble per entry (flag bits symbolic); the marker-request thread is run one loop '
                      'iteration at a time (%s)' % (N, SHAPES[:N], 'explicit schedule: the reply is dispatched from inside cf.send_packet, before the '
                                                    'requesting thread continues' if fault == 'early-reply' else 'sequential schedule: an iteration, then the reply'),
              max_paths=400 if N <= 2 else 4000, **opts)
    def k(c):
        kind = 'param'
        c.virtual_time()
        sequential_locks(c)
        bus = Bus(c)
        param = c.new(PAR + ':Param', bus.cf)
        c.let('param', param), c.let('PORT', 2)
        device_table(c, kind, N, wide_types=False)
        for j in range(N):
            c.int('pers%d' % j, 0, 255)          # the device's answer to "extended type of entry j"
        done = c.ext('toc_done')
        cache = c.ext('cache', returns={'fetch': None})
        c.reset_trace()
        c.call((param, 'refresh_toc'), done, cache)
        c.ensure('refresh-no-exception', 'raised is None')
        c.ensure('only-the-info-request-is-sent', "len(sent('cf.send_packet')) == 1 and len(sent('toc_done')) == 0")
        serve_download(c, bus, kind, N, 0, fault == 'dup')
        c.ensure('transmissions-are-info-and-one-per-entry', "len(sent('cf.send_packet')) == N + 1")
        c.let('toc', c.getfield(param, 'toc'))
        ext = [j for j in range(N) if c.concretize('(t%d & 0x10) != 0' % j)]
        c.let('EXT', tuple(ext))
        if not ext:
            c.ensure('no-extended-entries-completion-at-once', "len(sent('toc_done')) == 1 and len(calls('thread:_ExtendedTypeFetcher')) == 0")
        else:
            serve_markers(c, bus, ext, N + 1, fault)
        c.ensure('completion-signalled-exactly-once', "len(sent('toc_done')) == 1 and sent('toc_done')[0][1] == ()")
        check_param_table(c, N)
    return k


for _N in (2, 1, 0):
    for _fault in (('none', 'dup', 'stale') if _N else ('none',)):
        _param_refresh(_N, _fault)
_param_refresh(2, 'early-reply')
_param_refresh(1, 'early-reply')
_param_refresh(3, 'none', thorough_only=True)       # thorough tier: a longer table (the same clause, larger bound)
_param_refresh(3, 'early-reply', thorough_only=True)


@contract('C03', 'xtype.step', [XTF + '._new_packet_cb', XTF + '.__init__', XTF + '.set_callback', XTF + '._close', PAR + ':ParamTocElement.mark_persistent',
                                TOC + ':Toc.get_element_by_id'],
          clause='persistence markers, one received packet, any outstanding index r and any number k >= 1 of outstanding answers: a reply on the '
                 'misc channel carrying index r marks exactly entry r persistent iff its marker byte is 1, counts it, and signals completion iff '
                 'it was the last one (k == 1); any other packet (other index, other channel) changes nothing and signals nothing',
          bounded='table of two entries (indices symbolic, 0..65535)')
def xtype_step(c):
    cf = c.ext('cf')
    toc = c.new(TOC + ':Toc')
    for j in range(2):
        c.int('i%d' % j, 0, 65535)
        e = c.new(ELEMENT['param'], c.get('i%d' % j), c.snapshot('d%d' % j, "bytearray([0x16]) + b'g' + bytes([0]) + bytes([%d]) + bytes([0])" % (97 + j)))
        c.let('e%d' % j, e)
        c.invoke((toc, 'add_element'), e)
    c.require('i0 != i1')
    xf = c.new(XTF, cf, toc)
    c.let('xf', xf)
    done = c.ext('done')
    c.invoke((xf, 'set_callback'), done)
    c.int('r', 0, 65535), c.int('k', 1, 70000)
    c.require('r == i0 or r == i1')         # requests are made for entries of the table only
    c.set(xf, '_req_param', c.get('r')), c.set(xf, '_count', c.get('k'))
    c.invoke((c.getfield(xf, '_lock'), 'acquire'))          # the requesting thread holds the lock while it waits for the answer
    c.int('chan', 0, 3), c.int('cmd', 0, 255), c.int('v', 0, 65535), c.int('b', 0, 255)
    c.require('chan != 3 or cmd == 2')      # on the misc channel: marker replies (other commands: xtype.foreign-command, a FINDING)
    pk = packet(c, 2, 0, "pack('<BHB', cmd, v, b)")
    c.set(pk, 'channel', c.get('chan'))
    c.reset_trace()
    c.call((xf, '_new_packet_cb'), pk)
    c.ensure('no-exception', 'raised is None')
    c.snapshot('match', 'chan == 3 and v == r')
    c.ensure('exactly-entry-r-marked-iff-marker-byte-is-1', 'e0.is_persistent() == (match and b == 1 and i0 == r) and e1.is_persistent() == (match and b == 1 and i1 == r)')
    c.ensure('outstanding-count', 'xf._count == (k - 1 if match else k)')
    c.ensure('completion-iff-last-answer', "len(sent('done')) == (1 if match and k == 1 else 0) and len(trace) == len(sent('done'))")
    c.ensure('requester-released-iff-answered', 'xf._lock.locked() == (not match) and xf._req_param == (-1 if match else r)')


# ------------------------------------------------------------------------------------------------ 8. the table-info reply

def _info(kind, extras=(2, 0, 4), tag=None, **opts):
    @contract('C03', 'info.reply.%s%s' % (kind, '.' + tag if tag else ''), FETCH_F,
              clause='the table-info reply: the announced number of entries (16 bit in the current generation - more than 255 entries are '
                     'announced and accepted -, 8 bit in the legacy one) and checksum are taken over exactly, whatever follows them in the '
                     'packet; the cache is asked for that checksum; on a miss entry 0 is requested, or, for an empty table, the empty '
                     'table is complete at once (completion signalled exactly once, nothing requested)',
              bounded='%s bytes following the checksum in the reply (content symbolic)' % ' or '.join(str(x) for x in sorted(extras)), **opts)
    def k(c):
        f, toc = fetcher(c, kind)
        c.call((f, 'start'))
        c.require('raised is None')
        v2 = bool(c.concretize('ver >= 4'))
        c.int('N', 0, 65535 if v2 else 255), c.int('crc', 0, 2 ** 32 - 1)
        c.bytes('extra', c.choice('n_extra', list(extras)))
        c.reset_trace()
        c.call((f, '_new_packet_cb'), packet(c, PORT[kind], 0, ("pack('<BHI', 3, N, crc)" if v2 else "pack('<BBI', 1, N, crc)") + ' + extra'))
        c.ensure('no-exception', 'raised is None')
        c.ensure('size-and-checksum-taken-over', 'f.nbr_of_items == N and f._crc == crc')
        c.ensure('cache-asked-for-that-checksum-first', "calls()[0] == 'cache.fetch' and sent('cache.fetch')[0][1] == (crc,)")
        c.ensure('table-still-empty', 'len(toc.toc) == 0')
        if c.concretize('N > 0'):
            c.ensure('entry-0-requested-nothing-else', "calls() == ('cache.fetch', 'cf.send_packet') and f.requested_index == 0 and f.state == 'GET_TOC_ELEMENT'")
            last_request(c, 0)
            c.ensure('request-layout', "rq.port == PORT and rq.channel == 0 and bytes(rq.data) == " + ("pack('<BH', 2, 0)" if v2 else "pack('<BB', 0, 0)"))
        else:
            c.ensure('empty-table-complete-at-once', PROTOCOL_CALLS + " == ('cache.fetch', 'cache.insert', 'cf.remove_port_callback', 'finished')")
            c.ensure('cache-fed-with-the-empty-table', "sent('cache.insert')[0][1][0] == crc and sent('cache.insert')[0][1][1] is toc.toc")
    return k


_info('log')
_info('param')


# ------------------------------------------------------------------------------------------------ 9. FINDING (unchanged tree)
# _ExtendedTypeFetcher._new_packet_cb accepts ANY packet on the parameter misc channel whose bytes 1..2 equal the outstanding index
# as the answer to its marker request - it does not look at the command byte.  A reply to an earlier request of another kind for
# the same parameter (persistent_get_state = 4, get_default_value = 6, store/clear = 3/5, delayed from an earlier session on the
# same object) or a "value updated" notification (1) that arrives while the marker of that parameter is outstanding is taken as
# the marker: byte 3 of that packet decides is_persistent(), the genuine answer is then ignored.  The contract below states the
# clause ("regardless of ... stale or delayed replies", "replies to earlier requests") and FAILS on the pinned tree; it replays
# natively.  Until the maintainer of this directory has decided between a fix: commit and a known_findings.json entry
#   {"property": "C03", "contract": "xtype.foreign-command", "obligation": "not-a-marker-reply-changes-nothing", ...}
# it runs in the thorough tier only (`./vcheck C03 thorough --only xtype.foreign-command`); the ensure stays class P.
PENDING_FINDING = {}      # recorded in /verif/known_findings.json


@contract('C03', 'xtype.foreign-command', [XTF + '._new_packet_cb'],
          clause='persistence markers: a misc-channel packet that is not a reply to a marker request (command byte != 2), e.g. a delayed '
                 'reply to an earlier request of another kind or a value-updated notification for the same parameter, changes nothing',
          bounded='table of one entry', **PENDING_FINDING)
def xtype_foreign(c):
    cf = c.ext('cf')
    toc = c.new(TOC + ':Toc')
    c.int('r', 0, 65535)
    e = c.new(ELEMENT['param'], c.get('r'), c.snapshot('d', "bytearray([0x16]) + b'g' + bytes([0]) + b'n' + bytes([0])"))
    c.let('e', e)
    c.invoke((toc, 'add_element'), e)
    xf = c.new(XTF, cf, toc)
    c.let('xf', xf)
    done = c.ext('done')
    c.invoke((xf, 'set_callback'), done)
    c.set(xf, '_req_param', c.get('r')), c.set(xf, '_count', 1)
    c.invoke((c.getfield(xf, '_lock'), 'acquire'))
    c.int('cmd', 0, 255), c.bytes('rest', 3)
    c.require('cmd != 2')
    pk = packet(c, 2, 3, "pack('<BH', cmd, r) + rest")
    c.reset_trace()
    c.call((xf, '_new_packet_cb'), pk)
    c.ensure('no-exception', 'raised is None')
    c.ensure('not-a-marker-reply-changes-nothing', "e.is_persistent() is False and xf._count == 1 and xf._req_param == r and xf._lock.locked() and len(trace) == 0")


# ------------------------------------------------------------------------------------------------ 10. second use: a new connection on the same objects
# The Crazyflie object (and with it Log, Param and the table objects they hold) lives across connections.  "Once connected is
# signalled the tables are exactly the device's" therefore also speaks about the SECOND connection: the device may be another
# one (other firmware, other table, other protocol generation); nothing of the earlier table may survive.

SHAPES_B = ((2, 2), (2, 1), (1, 3))       # session-2 tables: entry 0 has the shape of the earlier entry 1 and vice versa (the same
#                                           name may come back under another index)


def _log_sessions(N1, N2, end1, **opts):
    @contract('C03', 'log.reconnect.n%d-then-n%d.%s' % (N1, N2, end1),
              FETCH_F + [LOG + ':Log.refresh_toc', LOG + ':Log._new_packet_cb', LOG + ':Log._send_reset_packet', LOG + ':LogTocElement.__init__',
                         TOC + ':TocFetcher._disconnected', TOC + ':TocFetcher._stop_listening'],
              clause='second connection on the same Log object (%s), to a device with another table, checksum and possibly another protocol '
                     'generation: the earlier table is dropped when the refresh starts, the reset acknowledgement starts exactly one download, the '
                     'completion callback and the cache of THIS refresh are used, each index is requested once, and at completion Log.toc equals '
                     'the second device table exactly - no entry of the first table survives, the lookups agree' % (
                         'the first download was complete' if end1 == 'complete' else 'the first connection was lost in the middle of its download'),
              bounded='first table %d entries (one type code each), second table %d entries, lengths %r (two type codes per entry); the names of '
                      'the two tables are unrelated inputs (equal names under other indices included)' % (N1, N2, SHAPES_B[:N2]), max_paths=600, **opts)
    def k(c):
        kind = 'log'
        bus = Bus(c, sessions=True)
        log = c.new(LOG + ':Log', bus.cf)
        c.let('log', log), c.let('PORT', 5)
        device_table(c, kind, N1, wide_types=False, sfx='a', one_type=True)
        device_table(c, kind, N2, wide_types=False, shapes=SHAPES_B)
        # ---- the first connection
        done_a = c.ext('toc_done_a')
        cache_a = c.ext('cache_a', returns={'fetch': None})
        c.reset_trace()
        c.call((log, 'refresh_toc'), done_a, cache_a)
        c.require('raised is None')
        bus.deliver(5, 1, 'bytes([5, 0, 0])', 'reset_a')
        if end1 == 'complete':
            serve_download(c, bus, kind, N1, 1, sfx='a')
            c.ensure('first-download-complete', "len(sent('toc_done_a')) == 1")
        else:
            serve_download(c, bus, kind, N1, 1, sfx='a', limit=N1)       # info and all entries but the last
            c.ensure('first-download-not-complete', "len(sent('toc_done_a')) == 0")
        bus.next_session()
        c.let('NCB', len(bus.cbs))
        c.ensure('only-the-log-object-listens-between-connections', 'NCB == 1')
        # ---- the second connection
        done = c.ext('toc_done')
        cache = c.ext('cache', returns={'fetch': None})
        c.call((log, 'refresh_toc'), done, cache)
        c.ensure('refresh-no-exception', 'raised is None')
        c.ensure('only-the-reset-request-is-sent', "len(sent('cf.send_packet')) == 1 and len(sent('toc_done')) == 0")
        c.ensure('old-table-dropped', 'log.toc is None')
        bus.deliver(5, 1, 'bytes([5, 0, 0])', 'reset')
        c.ensure('download-started', "len(sent('cf.send_packet')) == 2")
        serve_download(c, bus, kind, N2, 1)
        c.ensure('completion-signalled-exactly-once-to-this-refresh', "len(sent('toc_done')) == 1 and sent('toc_done')[0][1] == () and len(sent('toc_done_a')) == 0")
        c.ensure('transmissions-are-reset-info-and-one-per-entry', "len(sent('cf.send_packet')) == N + 2")
        c.ensure('cache-of-this-refresh-consulted-and-fed', "sent('cache.fetch')[0][1] == (crc,) and sent('cache.insert')[0][1][0] == crc and "
                 "sent('cache.insert')[0][1][1] is log.toc.toc and len(calls('cache_a')) == 0")
        c.let('NCB', len(bus.cbs))
        c.ensure('fetcher-unregistered-log-still-listening', 'NCB == 1')
        c.let('toc', c.getfield(log, 'toc'))
        check_table(c, kind, N2)
    return k


_log_sessions(2, 1, 'complete')
_log_sessions(1, 2, 'complete')
_log_sessions(2, 2, 'interrupted')
_log_sessions(2, 0, 'complete')
_log_sessions(2, 3, 'complete', thorough_only=True)
_log_sessions(2, 3, 'interrupted', thorough_only=True)


def _param_sessions(N1, N2, end1, **opts):
    @contract('C03', 'param.reconnect.n%d-then-n%d.%s' % (N1, N2, end1),
              PARAM_F + [PAR + ':Param._disconnected', PAR + ':Param._connection_requested', TOC + ':TocFetcher._disconnected', TOC + ':TocFetcher._stop_listening'],
              clause='second connection on the same Param object (%s), to a device with another table, checksum and possibly another protocol '
                     'generation: when the completion callback of the second refresh runs (exactly once, after the last persistence marker), '
                     'Param.toc equals the second device table exactly - no entry and no persistence marker of the first table survives - each '
                     'index and each marker is requested once, and the lookups agree' % (
                         'the first download incl. its persistence markers was complete' if end1 == 'complete' else
                         'the first connection was lost in the middle of its table download'),
              bounded='first table %d entries (entry 0 extended and persistent), second table %d entries, lengths %r (one type nibble per '
                      'entry, flag bits symbolic); the names of the two tables are unrelated inputs; marker thread: one loop iteration, then '
                      'the reply' % (N1, N2, SHAPES_B[:N2]), max_paths=1200, **opts)
    def k(c):
        kind = 'param'
        c.virtual_time()
        sequential_locks(c)
        bus = Bus(c, sessions=True)
        param = c.new(PAR + ':Param', bus.cf)
        c.let('param', param), c.let('PORT', 2)
        device_table(c, kind, N1, wide_types=False, sfx='a')
        c.require('t0a == 0x16')             # extended float
        for j in range(1, N1):
            c.require('t%da & 0xF0 == 0' % j)        # later entries: plain read-write, not extended
        device_table(c, kind, N2, wide_types=False, shapes=SHAPES_B)
        for j in range(N2):
            c.int('pers%d' % j, 0, 255)          # the second device's answer to "extended type of entry j"
        c.let('pers0a', 1)
        # ---- the first connection
        done_a = c.ext('toc_done_a')
        cache_a = c.ext('cache_a', returns={'fetch': None})
        c.reset_trace()
        c.call((param, 'refresh_toc'), done_a, cache_a)
        c.require('raised is None')
        if end1 == 'complete':
            serve_download(c, bus, kind, N1, 0, sfx='a')
            c.snapshot('xfa', "sent('thread:_ExtendedTypeFetcher.start')[0][1][0]")
            xfa = c.get('xfa')
            bus.on_send = lambda: c.set(xfa, '_should_close', True)
            c.call((xfa, 'run'))
            bus.on_send = None
            c.require('raised is None')
            bus.deliver(2, 3, "pack('<BHB', 2, 0, 1)", 'xa')
            c.ensure('first-download-complete', "len(sent('toc_done_a')) == 1")
            c.ensure('first-table-has-a-persistent-entry', "param.toc.get_element(G0a, M0a).is_persistent()")
        else:
            serve_download(c, bus, kind, N1, 0, sfx='a', limit=N1)       # info and all entries but the last
            c.ensure('first-download-not-complete', "len(sent('toc_done_a')) == 0")
        bus.next_session()
        # ---- the second connection
        done = c.ext('toc_done')
        cache = c.ext('cache', returns={'fetch': None})
        c.call((param, 'refresh_toc'), done, cache)
        c.ensure('refresh-no-exception', 'raised is None')
        c.ensure('only-the-info-request-is-sent', "len(sent('cf.send_packet')) == 1 and len(sent('toc_done')) == 0")
        serve_download(c, bus, kind, N2, 0)
        c.ensure('transmissions-are-info-and-one-per-entry', "len(sent('cf.send_packet')) == N + 1")
        c.ensure('cache-of-this-refresh-consulted-and-fed', "sent('cache.fetch')[0][1] == (crc,) and sent('cache.insert')[0][1][0] == crc and "
                 "sent('cache.insert')[0][1][1] is param.toc.toc and len(calls('cache_a')) == 0")
        c.let('toc', c.getfield(param, 'toc'))
        ext = [j for j in range(N2) if c.concretize('(t%d & 0x10) != 0' % j)]
        c.let('EXT', tuple(ext))
        if not ext:
            c.ensure('no-extended-entries-completion-at-once', "len(sent('toc_done')) == 1 and len(calls('thread:_ExtendedTypeFetcher')) == 0")
        else:
            serve_markers(c, bus, ext, N2 + 1, 'none')
        c.ensure('completion-signalled-exactly-once-to-this-refresh', "len(sent('toc_done')) == 1 and sent('toc_done')[0][1] == () and len(sent('toc_done_a')) == 0")
        check_param_table(c, N2)
    return k


_param_sessions(2, 1, 'complete')
_param_sessions(2, 1, 'interrupted')
_param_sessions(2, 0, 'complete')
_param_sessions(2, 2, 'complete', thorough_only=True)
_param_sessions(2, 2, 'interrupted', thorough_only=True)


@contract('C03', 'toc.clear', TOC_F + [TOC + ':Toc.clear'],
          clause='a table object that is cleared and filled again (second use of the same object) holds exactly the entries added after the '
                 'clearing: every lookup of an earlier entry - by index, by (group, name), by complete name - yields None, also when lookups '
                 'happened before the clearing, and the new entries are found by all three lookups, an index of the earlier table included',
          bounded='two entries before and one entry after the clearing; names of 2 characters; indices 0..65535 (the new index may equal an old one)')
def toc_clear(c):
    toc = c.new(TOC + ':Toc')
    c.let('toc', toc)
    for j in range(3):
        c.str('g%d' % j, 2, lo=1, hi=255), c.str('n%d' % j, 2, lo=1, hi=255)
        c.int('i%d' % j, 0, 65535)
        c.require("all(ch != '.' for ch in g%d) and all(ch != '.' for ch in n%d)" % (j, j))
        for h in range(j):
            c.require('not (g%d == g%d and n%d == n%d)' % (j, h, j, h))
    c.require('i0 != i1')
    for j in range(3):
        c.let('e%d' % j, c.obj(LOG + ':LogTocElement', ident=c.get('i%d' % j), group=c.get('g%d' % j), name=c.get('n%d' % j)))
    for j in range(2):
        c.call((toc, 'add_element'), c.get('e%d' % j))
    for j in range(2):          # lookups while the first table is there
        c.call((toc, 'get_element_by_id'), c.get('i%d' % j))
        c.require('raised is None and result is e%d' % j)
        c.call((toc, 'get_element_by_complete_name'), c.snapshot('cn%d' % j, "g%d + '.' + n%d" % (j, j)))
        c.require('raised is None and result is e%d' % j)
    c.call((toc, 'clear'))
    c.ensure('clear-no-exception', 'raised is None')
    c.ensure('table-empty', 'sum(len(grp) for grp in toc.toc.values()) == 0')
    for j in range(2):
        c.call((toc, 'get_element_by_id'), c.get('i%d' % j))
        c.ensure('cleared-entry-%d-not-found-by-index' % j, 'raised is None and result is None')
        c.call((toc, 'get_element'), c.get('g%d' % j), c.get('n%d' % j))
        c.ensure('cleared-entry-%d-not-found-by-group-and-name' % j, 'raised is None and result is None')
        c.call((toc, 'get_element_by_complete_name'), c.get('cn%d' % j))
        c.ensure('cleared-entry-%d-not-found-by-complete-name' % j, 'raised is None and result is None')
    c.call((toc, 'add_element'), c.get('e2'))
    c.ensure('added-after-clearing', 'raised is None and sum(len(grp) for grp in toc.toc.values()) == 1')
    c.call((toc, 'get_element_by_id'), c.get('i2'))
    c.ensure('new-entry-by-index', 'raised is None and result is e2')
    c.call((toc, 'get_element'), c.get('g2'), c.get('n2'))
    c.ensure('new-entry-by-group-and-name', 'raised is None and result is e2')
    c.call((toc, 'get_element_by_complete_name'), c.snapshot('cn2', "g2 + '.' + n2"))
    c.ensure('new-entry-by-complete-name', 'raised is None and result is e2')
    c.call((toc, 'get_element_id'), c.get('cn2'))
    c.ensure('new-entry-index-of-complete-name', 'raised is None and result == i2')
    for j in range(2):
        c.call((toc, 'get_element_by_complete_name'), c.get('cn%d' % j))
        c.ensure('earlier-entry-%d-still-absent' % j, 'raised is None and result is None')
        c.call((toc, 'get_element_by_id'), c.get('i%d' % j))
        c.ensure('earlier-index-%d-yields-only-the-new-entry' % j, 'raised is None and (result is e2 if i%d == i2 else result is None)' % j)


@contract('C03', 'xtype.request', [XTF + '.request_extended_types', XTF + '.run', XTF + '._new_packet_cb', XTF + '.__init__', XTF + '.set_callback',
                                   PAR + ':ParamTocElement.mark_persistent', TOC + ':Toc.get_element_by_id'],
          clause='persistence markers, request encoding for any index (more than 255 parameters): the marker request of an entry carries its index '
                 'as 16-bit little endian, for every index 0..65535, on the misc channel of the parameter port, with the request as retry pattern; '
                 'requests go out one at a time, the next one only after the reply; the reply carrying that index marks exactly that entry '
                 '(persistent iff the marker byte is 1) and completion is signalled exactly once, after the last reply',
          bounded='two extended entries with symbolic indices; requesting thread: one loop iteration, then the reply')
def xtype_request(c):
    stop = []

    def on_send(_i, _a, _k):
        for xf_ in stop:
            c.set(xf_, '_should_close', True)
    cf = c.ext('cf', attrs={'link': c.ext('link')}, returns={'send_packet': on_send})
    toc = c.new(TOC + ':Toc')
    for j in range(2):
        c.int('i%d' % j, 0, 65535), c.int('b%d' % j, 0, 255)
        e = c.new(ELEMENT['param'], c.get('i%d' % j), c.snapshot('d%d' % j, "bytearray([0x16]) + b'g' + bytes([0]) + bytes([%d]) + bytes([0])" % (97 + j)))
        c.let('e%d' % j, e)
        c.invoke((toc, 'add_element'), e)
    c.require('i0 != i1')
    xf = c.new(XTF, cf, toc)
    c.let('xf', xf)
    stop.append(xf)
    # the thread's lock and queue as their sequential models (blocking for ever = the pseudo exception Deadlock, at once)
    c.set(xf, '_lock', c.lock('xf_lock')), c.set(xf, 'request_queue', c.queue('xf_queue'))
    done = c.ext('done')
    c.invoke((xf, 'set_callback'), done)
    c.reset_trace()
    c.call((xf, 'request_extended_types'), c.list([c.get('e0'), c.get('e1')]))
    c.ensure('queueing-no-exception-nothing-transmitted-yet', "raised is None and len(sent('cf.send_packet')) == 0 and len(sent('done')) == 0")
    c.ensure('one-request-per-entry-carrying-its-index', "tuple(bytes(p.data) for p in xf.request_queue.queue) == (pack('<BH', 2, i0), pack('<BH', 2, i1))")
    for j in range(2):
        c.set(xf, '_should_close', False)
        c.call((xf, 'run'))
        c.ensure('request-%d-transmitted-alone' % j, "raised is None and len(sent('cf.send_packet')) == %d" % (j + 1))
        if not c.concretize("len(sent('cf.send_packet')) == %d" % (j + 1)):
            return
        last_request(c, j)
        c.ensure('request-%d-layout' % j, "rq.port == 2 and rq.channel == 3 and bytes(rq.data) == pack('<BH', 2, i%d) and "
                 "unpack('<H', bytes(rq.data[1:3]))[0] == i%d and tuple(rq_kw['expected_reply']) == tuple(rq.data)" % (j, j))
        c.call((xf, '_new_packet_cb'), packet(c, 2, 3, "pack('<BHB', 2, i%d, b%d)" % (j, j), 'reply%d' % j))
        c.ensure('reply-%d-no-exception' % j, 'raised is None')
        c.ensure('reply-%d-marks-exactly-its-entry' % j, 'e0.is_persistent() == (b0 == 1) and e1.is_persistent() == (%s)' % ('False' if j == 0 else 'b1 == 1'))
        c.ensure('completion-after-the-last-reply-only-%d' % j, "len(sent('done')) == %d" % j)
        c.ensure('requester-released-%d' % j, 'not xf._lock.locked()')
    c.ensure('no-request-left', 'xf.request_queue.qsize() == 0')


@contract('C03', 'param.refresh_toc.cache-hit', PARAM_F,
          clause='parameter table with the cache present and hit, from Param.refresh_toc to the completion callback: the cached table becomes '
                 'Param.toc, no entry is requested from the device, but the persistence markers (which the cache does not hold) are requested for '
                 'exactly the entries flagged as extended - whatever their indices, 0 and > 255 included - and when the completion callback runs, '
                 'exactly once and not before the last marker arrived, is_persistent() of every entry is the device\'s answer',
          bounded='cached table of two entries in two groups (indices and flag bits symbolic); marker thread: one loop iteration, then the reply',
          max_paths=400)
def param_cache_hit(c):
    c.virtual_time()
    sequential_locks(c)
    bus = Bus(c)
    param = c.new(PAR + ':Param', bus.cf)
    c.let('param', param), c.let('PORT', 2)
    groups = []
    for j in range(2):
        c.int('i%d' % j, 0, 65535), c.int('t%d' % j, 0, 255), c.int('pers%d' % j, 0, 255)
        c.require('(t%d & 0x0F) == %d' % (j, (6, 9)[j]))
        # an element as the cache decoder rebuilds it: type information and the extended flag, no persistence marker
        e = c.new(ELEMENT['param'], c.get('i%d' % j), c.snapshot('d%d' % j, "bytearray([t%d]) + b'g%d' + bytes([0]) + b'nm' + bytes([0])" % (j, j)))
        c.let('c%d' % j, e)
        groups.append(('g%d' % j, c.dict([('nm', e)])))
    c.require('i0 != i1')
    cached = c.dict(groups)
    c.let('cached', cached)
    c.int('crc', 0, 2 ** 32 - 1)
    done = c.ext('toc_done')
    cache = c.ext('cache', returns={'fetch': cached})
    c.reset_trace()
    c.call((param, 'refresh_toc'), done, cache)
    c.ensure('refresh-no-exception', 'raised is None')
    c.ensure('only-the-info-request-is-sent', "len(sent('cf.send_packet')) == 1 and len(sent('toc_done')) == 0")
    v2 = bool(c.concretize('ver >= 4'))
    bus.deliver(2, 0, "pack('<BHI', 3, 2, crc)" if v2 else "pack('<BBI', 1, 2, crc)", 'info')
    c.ensure('cache-asked-for-the-announced-checksum', "sent('cache.fetch')[0][1] == (crc,)")
    c.ensure('cached-table-adopted', 'param.toc.toc is cached')
    c.ensure('no-entry-requested', "len(sent('cf.send_packet')) == 1")
    ext = [j for j in range(2) if c.concretize('(t%d & 0x10) != 0' % j)]
    if not ext:
        c.ensure('no-extended-entries-completion-at-once', "len(sent('toc_done')) == 1 and len(calls('thread:_ExtendedTypeFetcher')) == 0")
    else:
        serve_markers(c, bus, ext, 1, 'none', ident=lambda j: 'i%d' % j)
    c.ensure('completion-signalled-exactly-once', "len(sent('toc_done')) == 1 and sent('toc_done')[0][1] == ()")
    c.ensure('table-is-the-cached-table', "param.toc.toc is cached and param.toc.get_element('g0', 'nm') is c0 and param.toc.get_element('g1', 'nm') is c1")
    for j in range(2):
        c.ensure('persistence-marker-%d-is-the-device-answer' % j, 'c%d.is_persistent() == ((t%d & 0x10) != 0 and pers%d == 1)' % (j, j, j))
        c.call((c.getfield(param, 'toc'), 'get_element_by_id'), c.get('i%d' % j))
        c.ensure('lookup-by-index-%d-agrees' % j, 'raised is None and result is c%d' % j)


PLT = 'cflib.crazyflie.platformservice'
MAGIC = b'Bitcraze Crazyflie'


@contract('C03', 'platform.version', [PLT + ':PlatformService.fetch_platform_informations', PLT + ':PlatformService._request_protocol_version',
                                      PLT + ':PlatformService._crt_service_callback', PLT + ':PlatformService._platform_callback',
                                      PLT + ':PlatformService.get_protocol_version', PLT + ':PlatformService.__init__'],
          clause='protocol generation: the version the table downloads test (get_protocol_version() >= 4 selects the current generation) is the '
                 'version THIS device reports - any value 0..255 - or -1 (legacy generation) for a device that does not identify itself; it is '
                 'settled before the completion callback (which starts the downloads) runs, exactly once; on a second connection of the same '
                 'object the version of the earlier device does not survive',
          bounded='two connections in a row, each to an identifying device (version symbolic) or to one of three non-identifying replies')
def platform_version(c):
    cf = c.ext('cf')
    ps = c.new(PLT + ':PlatformService', cf)
    c.let('ps', ps)
    for s in range(2):
        fetched = c.ext('fetched%d' % s)
        c.reset_trace()
        c.call((ps, 'fetch_platform_informations'), fetched)
        c.ensure('s%d-request-no-exception' % s, 'raised is None')
        c.ensure('s%d-asks-the-device-to-identify-itself' % s, "calls() == ('cf.send_packet',) and sent('cf.send_packet')[0][1][0].port == 15 and "
                 "sent('cf.send_packet')[0][1][0].channel == 1 and len(sent('fetched%d')) == 0" % s)
        dev = c.choice('device%d' % s, ['identifies', 'silent-zeros', 'near-miss', 'short'])
        if dev == 'identifies':
            c.int('v%d' % s, 0, 255)
            c.bytes('tail%d' % s, 4)
            c.call((ps, '_crt_service_callback'), packet(c, 15, 1, '%r + tail%d' % (MAGIC, s), 'ident%d' % s))
            c.ensure('s%d-version-requested-not-yet-complete' % s, "raised is None and len(sent('cf.send_packet')) == 2 and len(sent('fetched%d')) == 0 and "
                     "sent('cf.send_packet')[1][1][0].port == 13 and sent('cf.send_packet')[1][1][0].channel == 1 and "
                     "tuple(sent('cf.send_packet')[1][1][0].data) == (0,)" % s)
            # packets of the platform port that are not the version reply change nothing
            c.int('o%d' % s, 0, 255)
            c.call((ps, '_platform_callback'), packet(c, 13, 0, "bytes([0, o%d])" % s, 'other%d' % s))
            c.ensure('s%d-other-channel-ignored' % s, "raised is None and len(sent('fetched%d')) == 0 and len(sent('cf.send_packet')) == 2" % s)
            c.call((ps, '_platform_callback'), packet(c, 13, 1, "bytes([0, v%d])" % s, 'version%d' % s))
            c.ensure('s%d-version-is-the-device-version' % s, 'raised is None and ps.get_protocol_version() == v%d' % s)
            # a (late) answer to another command of the version channel - firmware version, device type name - is not the protocol version
            c.int('cmd%d' % s, 1, 255)
            c.int('w%d' % s, 0, 255)
            c.call((ps, '_platform_callback'), packet(c, 13, 1, "bytes([cmd%d, w%d])" % (s, s), 'late%d' % s))
            c.ensure('s%d-answers-to-other-version-commands-change-nothing' % s,
                     "raised is None and ps.get_protocol_version() == v%d and len(sent('fetched%d')) == 1 and len(sent('cf.send_packet')) == 2" % (s, s))
        else:
            data = {'silent-zeros': bytes(30), 'near-miss': b'Bitcraze Crazyfli3 v1', 'short': b'Bitcraze'}[dev]
            c.call((ps, '_crt_service_callback'), packet(c, 15, 1, repr(data), 'ident%d' % s))
            c.ensure('s%d-legacy-generation' % s, "raised is None and ps.get_protocol_version() == -1 and len(sent('cf.send_packet')) == 1")
        c.ensure('s%d-completion-exactly-once' % s, "len(sent('fetched%d')) == 1 and sent('fetched%d')[0][1] == ()" % (s, s))
        if s == 1:
            c.ensure('completion-of-the-earlier-connection-not-repeated', "len(sent('fetched0')) == 0")


# ------------------------------------------------------------------------------------------------ 11. thorough tier: larger bounds of the step contracts

for _kind in ('log', 'param'):
    _step_accept(_kind, True, 12, 12, thorough_only=True)           # the longest naming of the current generation (24 bytes)
    _step_accept(_kind, False, 13, 12, thorough_only=True)          # the longest naming of the legacy generation (25 bytes)
    _step_accept(_kind, True, 0, 5, thorough_only=True)             # empty group
    for _v2 in (True, False):
        for _L in (4, 5, 6, 7, 8, 12, 16, 20, 24, 29):
            _step_ignore(_kind, _v2, _L, thorough_only=True)
_lookups(4, thorough_only=True)
_info('log', (1, 3, 8, 23), 'more-trailing-bytes', thorough_only=True)
_info('param', (1, 3, 8, 23), 'more-trailing-bytes', thorough_only=True)


# ------------------------------------------------------------------------------------------------ 12. a connection lost while a marker request is outstanding
# Consequence, for THIS property, of the known finding of C02 (interrupted-extended.*.request-in-flight: the _ExtendedTypeFetcher of a
# connection that ends while its request is in flight stays registered with that request outstanding, its thread alive).  In the next
# connection the left-over fetcher takes the new device's marker replies for its own, its thread transmits the rest of ITS queue on the
# new link, and when its count reaches zero it calls the completion callback of the abandoned refresh - in Crazyflie the same
# function that signals `connected` - before the fetcher of the new connection has applied the marker carried by that very packet.
# FAILS on the unchanged tree (native replay); thorough tier only until the maintainer of this directory has decided.

@contract('C03', 'param.reconnect.marker-outstanding', PARAM_F + [PAR + ':Param._disconnected', PAR + ':Param._connection_requested'],
          clause='second connection on the same Param object after a first connection that was lost while a persistence-marker request was '
                 'outstanding: nothing of the first connection is transmitted or signalled during the second one, and whenever completion is '
                 'signalled the persistence marker of every entry of the second table is the second device\'s answer',
          bounded='both tables: two extended entries; the first connection ends after its first marker request was transmitted; threads: one '
                  'loop iteration at a time, the left-over thread continues as soon as its lock is released',
          thorough_only=True, max_paths=600)
def param_marker_outstanding(c):
    kind = 'param'
    c.virtual_time()
    sequential_locks(c)
    bus = Bus(c, sessions=True)
    param = c.new(PAR + ':Param', bus.cf)
    c.let('param', param), c.let('PORT', 2)
    device_table(c, kind, 2, wide_types=False, sfx='a')
    c.require('t0a == 0x16 and t1a == 0x19')
    device_table(c, kind, 2, wide_types=False, shapes=SHAPES_B)
    c.require('(t0 & 0x10) != 0 and (t1 & 0x10) != 0')
    c.int('pers0', 0, 255), c.int('pers1', 0, 255)
    # ---- the first connection: table complete, first marker request transmitted, then the link is lost
    done_a = c.ext('toc_done_a', returns={'()': lambda *_: seen.append(('old', len(seen)))})
    seen = []
    cache_a = c.ext('cache_a', returns={'fetch': None})
    c.reset_trace()
    c.call((param, 'refresh_toc'), done_a, cache_a)
    c.require('raised is None')
    serve_download(c, bus, kind, 2, 0, sfx='a')
    c.snapshot('xfa', "sent('thread:_ExtendedTypeFetcher.start')[0][1][0]")
    xfa = c.get('xfa')

    def iteration(xf):
        c.set(xf, '_should_close', False)
        bus.on_send = lambda: c.set(xf, '_should_close', True)
        c.call((xf, 'run'))
        bus.on_send = None
    iteration(xfa)
    c.require("raised is None and len(sent('toc_done_a')) == 0")
    bus.next_session()
    # ---- the second connection
    at_done = []

    def completion(*_a):
        at_done.append(c.snapshot('at_done_%d' % len(at_done), '(e0n.is_persistent(), e1n.is_persistent())'))
    done = c.ext('toc_done', returns={'()': completion})
    c.set(xfa, '_done_callback', c.ext('toc_done_a', returns={'()': completion}))       # (same stub name; records the table state as well)
    cache = c.ext('cache', returns={'fetch': None})
    c.call((param, 'refresh_toc'), done, cache)
    c.ensure('refresh-no-exception', 'raised is None')
    serve_download(c, bus, kind, 2, 0)
    c.ensure('transmissions-are-info-and-one-per-entry', "len(sent('cf.send_packet')) == N + 1")
    c.let('toc', c.getfield(param, 'toc'))
    for j in range(2):
        c.call((c.get('toc'), 'get_element_by_id'), j)
        c.require('raised is None and result is not None')
        c.snapshot('e%dn' % j, 'result')
    c.snapshot('xf', "sent('thread:_ExtendedTypeFetcher.start')[0][1][0]")
    xf = c.get('xf')
    for j in range(2):
        iteration(xf)
        c.ensure('marker-request-%d-transmitted' % j, 'raised is None')
        bus.deliver(2, 3, "pack('<BHB', 2, %d, pers%d)" % (j, j), 'x%d' % j)
        if c.concretize('not xfa._lock.locked()') and c.concretize('xfa.request_queue.qsize() > 0'):
            iteration(xfa)          # the left-over thread was waiting for its lock
    c.snapshot('marker_tx', "tuple(bytes(p[1][0].data) for p in sent('cf.send_packet')[N + 1:])")
    c.ensure('only-the-requests-of-this-connection-are-transmitted', "marker_tx == (pack('<BH', 2, 0), pack('<BH', 2, 1))")
    c.ensure('the-abandoned-refresh-signals-nothing', "len(sent('toc_done_a')) == 0")
    c.ensure('completion-signalled-exactly-once', "len(sent('toc_done')) == 1")
    for i in range(len(at_done)):
        c.ensure('markers-complete-when-completion-is-signalled-%d' % i, 'at_done_%d == (pers0 == 1, pers1 == 1)' % i)
    check_param_table(c, 2)
