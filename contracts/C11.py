"""C11 - the table cache never yields a wrong table, even after a crash.

Functions under contract: TocCache.__init__/fetch/insert/_encoder/_decoder (cflib/crazyflie/toccache.py) and the
cache branch of TocFetcher._new_packet_cb (cflib/crazyflie/toc.py); Toc.add_element builds the tables.

How the outside world is handled
--------------------------------
The code reaches the outside through open(), glob(), os.path.exists(), os.makedirs(), json.dumps(), json.load()
and eval().  They are NOT replaced by hand-written fakes in the native (CPython) runs: there the real functions run
on a real scratch directory (thin recording wrappers note every call in the trace).  In the symbolic runs they are
replaced by the dependency contracts of class `World` below (a ghost file system + an abstract JSON codec).  Every
proved path is re-run natively on a solver witness, so each dependency contract is sampled against the real
json/open/glob/os on every path (a disagreement is an ENGINE-MISMATCH, exit 3).

ASSUMED (dependency contracts, class World, symbolic side):
 D1 json.loads(json.dumps(x, indent=2, default=enc), object_hook=dec) rebuilds x node by node: str/int/bool/None
    leaves are returned unchanged, dict keys (str) and their order are kept, `enc` is applied to every
    non-JSON object and `dec` to every decoded dict, innermost first.  (floats, lists, non-str keys: out of subset.)
 D2 every strict prefix of the text json.dumps() produces for a dict is rejected by json.load with a ValueError
    (the text starts with '{' and its last byte is the matching '}').  This is the crash-safety step; natively it is
    validated on EVERY prefix of every table text a witness produces (World.cut_file), the solver side just uses it.
 D3 open(p) raises FileNotFoundError when p does not exist; open(p, 'w') creates/truncates p when its directory
    exists and raises FileNotFoundError otherwise; write()/close() succeed (ENOSPC/EIO during write: not covered).
 D4 glob(d + '/*.json') lists exactly the existing files of directory d whose name ends in .json ([] if d does not
    exist); os.path.exists / os.makedirs have their documented meaning and makedirs succeeds.
 D5 eval(s) of an identifier is the module global of that name, NameError if there is none.
 D6 the cache directories hold only files named '%08X.json' % checksum (the library's own naming; at most one file
    per directory and checksum, so the order in which glob lists a directory is irrelevant) - except in
    fetch.foreign-file-names, where both directories also hold a *.json whose name is not a checksum.

BOUNDED: tables of at most 2 entries (0, 1, 2; one or two groups); at most one pre-existing file per directory;
 directory names are fixed strings without glob meta characters; group/name/type strings have fixed lengths (2-3
 symbolic printable ASCII characters; strings are atoms for D1, so the length does not take part in any proof step).

WHERE EACH CLAUSE OF THE DESIGN SECTION IS DECIDED
 O1 field identity of encoder/decoder ........ codec.log, codec.param, codec.plain_dict; lifted over whole tables through
    D1 in history.store_load.* (store -> [crash | delete] -> [restart] -> load -> repair -> load), history.reserved_name
 O2 fetch opens only <dir>/<%08X of the announced checksum>.json, returns the table stored under exactly that checksum
    or None, never raises ......................... fetch.select.<layout> (6 layouts of ro/rw directories, file A in ro,
    file B in rw, all three checksums symbolic), history.other_checksum (files written by insert itself);
    damaged / missing / cut-at-any-byte / foreign-class / vanished files are misses ... fetch.damaged, history.store_load.*;
    files of other library versions (entries lacking a field) are misses, no field is defaulted ... fetch.other_version.*;
    the fetcher asks the cache with the checksum decoded from the info reply, replaces its table only by a non-empty answer,
    otherwise downloads, and stores under the announced checksum ... fetcher.info_reply.v1/v2, fetcher.download_store.v1/v2
 O3 only <rw>/<%08X>.json is opened for writing, nothing when rw is unset, the constructor creates at most rw, the ro
    directory is never written, insert never raises (also when rw has disappeared) ... insert.writes.<layout>
 quantifier "collisions between log and parameter tables" ... collision.log_then_param / collision.param_then_log: these
    FAIL on the pinned tree (genuine finding, see the comment above PENDING_FINDING) and run in the thorough tier only.

NOT COVERED (and why):
 * concurrent use of one TocCache by two threads (needs interleavings; the library fetches log and param
   tables one after the other on the same thread);
 * I/O errors in the middle of write()/close() (disk full): only a crash that leaves a prefix of the text is modelled;
 * cache files that are valid JSON but were not written by any version of the encoder (no '__class__' tag, a list or
   number at top level, wrong leaf types) - "foreign" files; files written by other versions of the encoder (entries
   with missing field keys) ARE covered (fetch.other_version);
 * ParamTocElement.persistent is not part of the cached fields (the property does not list it);
 * the element download itself (packet -> element) belongs to C03; here the element class is a stub.
"""
from pyvc.api import contract

TC = 'cflib.crazyflie.toccache'
TOCM = 'cflib.crazyflie.toc'
LOG = 'cflib.crazyflie.log'
PAR = 'cflib.crazyflie.param'
STK = 'cflib.crtp.crtpstack'

CLS = {'log': LOG + ':LogTocElement', 'param': PAR + ':ParamTocElement'}
CLSNAME = {'log': 'LogTocElement', 'param': 'ParamTocElement'}
KEYS = ('ident', 'group', 'name', 'ctype', 'pytype', 'access')

P_EQ = ('a cached table is used only when the checksum announced by the device equals the one it was stored under')
P_ID = ('what is loaded is entry-for-entry identical to what was stored (index, group, name, types, access, extended marker, '
        'element class) for log and parameter tables')
P_MISS = ('a cache file that is missing, truncated at any byte, or otherwise unparsable is a miss (None, no exception), never a '
          'partial or wrong table')
P_RO = 'the read-only cache directory is never written; only <rw_cache>/<%08X of the checksum>.json is ever opened for writing'

# flat(table): the entries of a two-level table in iteration order, one tuple per entry
FLAT = ('lambda t: tuple((g, n, typename(e), e.ident, e.group, e.name, e.ctype, e.pytype, e.access, getattr(e, "extended", None)) '
        'for g, grp in t.items() for n, e in grp.items())')
RO_UNCHANGED = 'n_ro2 == n_ro and (ro is None or all(not p.startswith(ro + "/") for p in writes()))'
# paths opened for writing / creating
WRITES = ('lambda: tuple(e[1][0] for e in sent("open") if (e[1][1] if len(e[1]) > 1 else e[2].get("mode", "r")) != "r")')


# ----------------------------------------------------------------------------------------------------------------
# The world outside the library: ghost file system + JSON codec (symbolic) / scratch directory (native)
# ----------------------------------------------------------------------------------------------------------------

class _Rec:
    """native only: transparent recording wrapper around a real function / module"""

    def __init__(self, trace, name, target):
        self.__dict__.update(_t=trace, _n=name, _x=target)

    def __getattr__(self, a):
        import types
        v = getattr(self._x, a)
        if isinstance(v, types.ModuleType) or callable(v):
            return _Rec(self._t, self._n + '.' + a, v)
        return v

    def __call__(self, *a, **k):
        self._t.append((self._n, tuple(a), dict(k)))
        return self._x(*a, **k)


class _GFile:
    """symbolic only: one file of the ghost file system"""

    def __init__(self, path, dirname):
        self.path, self.dirname = path, dirname
        self.chunks = []        # what was written: list of _JText
        self.state = 'ok'       # 'ok' | 'cut' (a strict prefix of the text) | 'garbage' (not JSON at all)


class World:
    def __init__(self, c):
        self.c = c
        self.sym = c.backend == 'sym'
        if self.sym:
            self._sym_init()
        else:
            self._nat_init()
        c.snapshot('flat', FLAT)
        c.snapshot('writes', WRITES)

    # ------------------------------------------------------------------ native: real directory, real json/open/glob/os
    def _nat_init(self):
        import atexit
        import builtins
        import glob
        import importlib
        import os
        import shutil
        import tempfile
        self.root = tempfile.mkdtemp(prefix='pyvc-C11-')
        atexit.register(shutil.rmtree, self.root, True)
        m = self.mod = importlib.import_module(TC)
        tr = self.c.trace
        m.open = _Rec(tr, 'open', builtins.open)        # module global shadowing the builtin; removed again in close()
        m.glob = _Rec(tr, 'glob', glob.glob)
        m.os = _Rec(tr, 'os', os)

    # ------------------------------------------------------------------ symbolic: dependency contracts D1-D5
    def _sym_init(self):
        from pyvc.values import Builtin, ModuleVal
        I = self.I = self.c.I
        self.root = '/c11'
        self.dirs = [self.root]
        self.files = []
        mod = I.load_module(TC)
        self.mod = mod
        js = ModuleVal('json', None)
        js.attrs['load'] = Builtin('json.load', self._s_load)
        js.attrs['dumps'] = Builtin('json.dumps', self._s_dumps)
        osp = ModuleVal('os.path', None)
        osp.attrs['exists'] = Builtin('os.path.exists', self._s_exists)
        osm = ModuleVal('os', None)
        osm.attrs['path'] = osp
        osm.attrs['makedirs'] = Builtin('os.makedirs', self._s_makedirs)
        mod.attrs.update({'open': Builtin('open', self._s_open), 'glob': Builtin('glob', self._s_glob),
                          'eval': Builtin('eval', self._s_eval), 'json': js, 'os': osm})
        I.note_assumption('C11 dependency contracts D1-D6 for json/open/glob/os/eval (see contracts/C11.py), sampled natively on every path')

    def _oos(self, what):
        from pyvc.core import OutOfSubset
        raise OutOfSubset('C11 world model: ' + what)

    def _conc_str(self, v, what):
        if not isinstance(v, str):
            self._oos('%s must be a concrete string, got %r' % (what, v))
        return v

    def _dirname(self, path):
        """directory part of a path whose directory is concrete (the file name may be symbolic)"""
        from pyvc.values import PStr
        if isinstance(path, str):
            chars = [ord(ch) for ch in path]
        elif isinstance(path, PStr):
            chars = list(path.chars)
        else:
            self.I.raise_py('TypeError', 'expected str, bytes or os.PathLike object')
        cut = None
        for i, ch in enumerate(chars):
            if isinstance(ch, int) and ch == 47:
                cut = i
            elif not isinstance(ch, int):
                # a symbolic character: by the input ranges used here (hex digits) it is never '/'
                if not self.I.path.must(ch.t != 47):
                    self._oos('path with a symbolic character that may be "/"')
        if cut is None or any(not isinstance(ch, int) for ch in chars[:cut]):
            self._oos('path without a concrete directory: %r' % (path,))
        return ''.join(chr(ch) for ch in chars[:cut])

    def _lookup(self, path):
        from pyvc.ops import py_eq
        for f in self.files:
            if f.path is path:
                return f
        for f in self.files:
            r = py_eq(self.I, f.path, path)
            if r is True or (r is not False and self.I.path.decide(r.t)):
                return f
        return None

    def _s_glob(self, I, a, k):
        pat = self._conc_str(a[0], 'glob pattern')
        I.trace.append(('glob', tuple(a), dict(k)))
        if not pat.endswith('/*.json') or any(ch in pat[:-7] for ch in '*?['):
            self._oos('glob pattern %r' % pat)
        from pyvc.values import PList
        return PList([f.path for f in self.files if f.dirname == pat[:-7]])

    def _s_exists(self, I, a, k):
        p = self._conc_str(a[0], 'os.path.exists argument')
        I.trace.append(('os.path.exists', tuple(a), dict(k)))
        return p in self.dirs

    def _s_makedirs(self, I, a, k):
        p = self._conc_str(a[0], 'os.makedirs argument')
        I.trace.append(('os.makedirs', tuple(a), dict(k)))
        if p in self.dirs:
            I.raise_py('FileExistsError', 17, 'File exists')
        parent = p.rsplit('/', 1)[0]
        if parent not in self.dirs:
            self._oos('makedirs below a missing parent')
        self.dirs.append(p)

    def _mk_file_obj(self, gf, methods):
        from pyvc.values import Ext
        fo = Ext('file', auto=False)
        fo.gfile = gf
        for nm, fn in methods.items():
            ch = Ext('file.' + nm)
            ch.parent, ch.method_name = fo, nm
            fo.returns[nm] = fn
            fo.attrs[nm] = ch
        return fo

    def _s_open(self, I, a, k):
        path = a[0]
        mode = a[1] if len(a) > 1 else k.get('mode', 'r')
        if len(a) > 2 or set(k) - {'mode'}:
            self._oos('open() with buffering/encoding arguments')
        I.trace.append(('open', tuple(a), dict(k)))
        d = self._dirname(path)
        if mode == 'r':
            gf = self._lookup(path) if d in self.dirs else None
            if gf is None:
                I.raise_py('FileNotFoundError', 2, 'No such file or directory')
            return self._mk_file_obj(gf, {'close': lambda I_, a_, k_: None})
        if mode == 'w':
            if d not in self.dirs:
                I.raise_py('FileNotFoundError', 2, 'No such file or directory')
            gf = self._lookup(path)
            if gf is None:
                gf = _GFile(path, d)
                self.files.append(gf)
            gf.chunks, gf.state = [], 'ok'          # 'w' truncates

            def write(I_, a_, k_):
                if not isinstance(a_[0], _jtext_class()):
                    self._oos('write of something that is not the result of json.dumps: %r' % (a_[0],))
                gf.chunks.append(a_[0])
                return None
            return self._mk_file_obj(gf, {'write': write, 'close': lambda I_, a_, k_: None})
        self._oos('open mode %r' % (mode,))

    def _s_eval(self, I, a, k):
        if len(a) != 1 or k:
            self._oos('eval with explicit name spaces')
        s = a[0]
        from pyvc.values import PStr
        if isinstance(s, PStr):
            self._oos('eval of a symbolic string')
        if not isinstance(s, str):
            I.raise_py('TypeError', 'eval() arg 1 must be a string, bytes or code object')
        if not s.isidentifier() or s in ('self', 'obj', 'elem'):
            self._oos('eval of %r (only global identifiers are modelled)' % s)
        if s in self.mod.attrs:
            return self.mod.attrs[s]
        b = I.models.builtin(I, s)
        if b is not None:
            return b
        I.raise_py('NameError', "name '%s' is not defined" % s)

    def _to_json(self, v, default, depth=0):
        from pyvc.values import PDict, PStr, SInt, SBool
        if depth > 8:
            self._oos('json nesting')
        if v is None or isinstance(v, (bool, int, str, PStr, SInt, SBool)) and not isinstance(v, float):
            return v
        if isinstance(v, PDict):
            out = PDict()
            for kk, vv in zip(v.keys, v.vals):
                if not isinstance(kk, (str, PStr)):
                    self._oos('json object key that is not a str')
                out.keys.append(kk)
                out.vals.append(self._to_json(vv, default, depth + 1))
            return out
        from pyvc.values import Obj
        if isinstance(v, Obj):
            if default is None:
                self.I.raise_py('TypeError', 'Object is not JSON serializable')
            return self._to_json(self.I.call(default, [v], {}), default, depth + 1)
        self._oos('json.dumps of %r' % (v,))

    def _from_json(self, v, hook):
        from pyvc.values import PDict
        if isinstance(v, PDict):
            d = PDict([(kk, self._from_json(vv, hook)) for kk, vv in zip(v.keys, v.vals)])
            return self.I.call(hook, [d], {}) if hook is not None else d
        return v

    def _s_dumps(self, I, a, k):
        if len(a) != 1 or set(k) - {'indent', 'default'}:
            self._oos('json.dumps arguments %r' % (sorted(k),))
        return _jtext_class()(self._to_json(a[0], k.get('default')))

    def _s_load(self, I, a, k):
        if len(a) != 1 or set(k) - {'object_hook'}:
            self._oos('json.load arguments %r' % (sorted(k),))
        gf = getattr(a[0], 'gfile', None)
        if gf is None:
            self._oos('json.load of %r' % (a[0],))
        if gf.state != 'ok' or len(gf.chunks) == 0:
            I.raise_py('ValueError', 'JSONDecodeError')           # D2 / not JSON / empty file
        if len(gf.chunks) != 1:
            self._oos('file written in several pieces')
        return self._from_json(gf.chunks[0].value, k.get('object_hook'))

    # ------------------------------------------------------------------ operations of the environment (both worlds)
    def mkdir(self, name):
        p = self.root + '/' + name
        if self.sym:
            self.dirs.append(p)
        else:
            import os
            os.mkdir(p)
        return p

    def dirpath(self, name):
        return self.root + '/' + name

    def hex8_name(self, crc):
        """'%08X.json' % crc, written down independently of the library's formatting code"""
        if not self.sym or isinstance(crc, int):
            return '%08X.json' % crc
        import z3
        from pyvc.ops import mk_int, mk_seq
        chars = []
        for i in range(7, -1, -1):
            dg = (crc.t / (16 ** i)) % 16
            chars.append(mk_int(z3.If(dg < 10, dg + 48, dg + 55)))
        return mk_seq('str', chars + [ord(ch) for ch in '.json'])

    def put_file(self, dirpath, crc, table):
        """a cache file written earlier (by this or another version of the library).
        table: [(group, [(name, [(key, value), ...]), ...]), ...]"""
        if self.sym:
            from pyvc.values import PDict
            from pyvc.ops import seq_concat
            doc = PDict([(g, PDict([(n, PDict(list(ent))) for n, ent in grp])) for g, grp in table])
            gf = _GFile(seq_concat(self.I, dirpath + '/', self.hex8_name(crc)), dirpath)
            gf.chunks = [_jtext_class()(doc)]
            self.files.append(gf)
            return gf
        import json
        p = dirpath + '/' + self.hex8_name(crc)
        with open(p, 'w') as f:
            f.write(json.dumps({g: {n: dict(ent) for n, ent in grp} for g, grp in table}, indent=2))
        return p

    def put_foreign_file(self, dirpath, name):
        """a file that is not the library's: a *.json whose name is not a checksum (an editor's index.json, a README.json ...);
        its content is an empty JSON object"""
        if self.sym:
            gf = _GFile(dirpath + '/' + name, dirpath)
            gf.state = 'garbage'
            self.files.append(gf)
            return gf
        p = dirpath + '/' + name
        with open(p, 'w') as f:
            f.write('{}')
        return p

    def file_written_for(self, dirpath, crc):
        """handle of the file <dirpath>/<%08X of crc>.json (None if there is none)"""
        if self.sym:
            from pyvc.ops import seq_concat
            return self._lookup(seq_concat(self.I, dirpath + '/', self.hex8_name(crc))) if dirpath in self.dirs else None
        import os
        p = dirpath + '/' + self.hex8_name(crc)
        return p if os.path.isfile(p) else None

    def cut_file(self, fh, cut):
        """the process died while writing: only a strict prefix of the text (length chosen by `cut`) reached the disk"""
        if fh is None:
            return                          # nothing was written, nothing to cut
        if self.sym:
            if fh.chunks:
                fh.state = 'cut'
            return
        import json
        text = open(fh).read()
        if not text:
            return
        for i in range(len(text)):          # D2, validated on every prefix of this text
            try:
                json.loads(text[:i])
            except ValueError:
                continue
            raise AssertionError('dependency contract D2 violated: prefix %d of %r parses' % (i, text))
        import zlib
        with open(fh, 'w') as f:        # (cut + constant) mod length: every offset is reached by some cut, witnesses are spread
            f.write(text[:(cut + zlib.crc32(text.encode())) % len(text)])

    def garble_file(self, fh):
        if self.sym:
            fh.state = 'garbage'
            return
        with open(fh, 'w') as f:
            f.write('this is not { json')

    def remove_file(self, fh):
        if fh is None:
            return
        if self.sym:
            self.files.remove(fh)
            return
        import os
        os.remove(fh)

    def remove_dir(self, dirpath):
        if self.sym:
            self.dirs = [d for d in self.dirs if d != dirpath and not d.startswith(dirpath + '/')]
            self.files = [f for f in self.files if f.dirname != dirpath]
            return
        import shutil
        shutil.rmtree(dirpath, True)

    def listing(self, dirpath):
        """the entries of a directory as a comparable value (names natively, file identities in the ghost file system;
        None if the directory does not exist).  File CONTENTS change only through open(.., 'w'), which the trace shows."""
        if dirpath is None:
            return ()
        if self.sym:
            if dirpath not in self.dirs:
                return None
            return tuple(id(f) for f in self.files if f.dirname == dirpath) + tuple(d for d in self.dirs if d.startswith(dirpath + '/'))
        import os
        if not os.path.isdir(dirpath):
            return None
        return tuple(sorted(os.listdir(dirpath)))

    def calls_so_far(self):
        """the trace up to now (c.new does not publish it)"""
        return tuple(self.I.trace) if self.sym else tuple(self.c.trace)

    def close(self):
        if not self.sym:
            import glob
            import os
            import shutil
            shutil.rmtree(self.root, True)
            vars(self.mod).pop('open', None)
            self.mod.glob, self.mod.os = glob.glob, os


_JT = []


def _jtext_class():
    """symbolic only: the text json.dumps returns, kept as the JSON value it denotes (D1)"""
    if not _JT:
        from pyvc.values import Opaque

        class _JText(Opaque):
            def __init__(self, value):
                Opaque.__init__(self, 'json text')
                self.value = value
        _JT.append(_JText)
    return _JT[0]


# ----------------------------------------------------------------------------------------------------------------
# inputs
# ----------------------------------------------------------------------------------------------------------------

def fields(c, tag, kind):
    """symbolic field values of one table entry"""
    f = [('ident', c.int(tag + '_id', 0, 65535)), ('group', c.str(tag + '_g', 2)), ('name', c.str(tag + '_n', 2)),
         ('ctype', c.str(tag + '_ct', 3)), ('pytype', c.str(tag + '_pt', 2)), ('access', c.int(tag + '_acc', 0, 255))]
    if kind == 'param':
        f.append(('extended', c.bool(tag + '_x')))
    return f


def element(c, kind, f):
    """a real element object with these fields (the constructors only parse device payloads)"""
    d = dict(f)
    if kind == 'param':
        d.setdefault('persistent', False)
    return c.obj(CLS[kind], **d)


def entry(kind, f):
    """what the encoder of the library writes for such an element: the file format"""
    return [('__class__', CLSNAME[kind])] + list(f)


def flat_of(kind, f):
    d = dict(f)
    return (d['group'], d['name'], CLSNAME[kind], d['ident'], d['group'], d['name'], d['ctype'], d['pytype'], d['access'],
            d.get('extended'))


# ----------------------------------------------------------------------------------------------------------------
# O1  field identity of encoder / decoder
# ----------------------------------------------------------------------------------------------------------------

def _roundtrip(kind):
    @contract('C11', 'codec.' + kind, [TC + ':TocCache._encoder', TC + ':TocCache._decoder'],
              clause=P_ID + ' - per entry: the encoder writes exactly the class tag and the fields, the decoder rebuilds an '
              'element of that class with exactly these fields')
    def k(c):
        w = World(c)
        cache = c.new(TC + ':TocCache')
        f = fields(c, 'e', kind)
        e = element(c, kind, f)
        c.let('e', e)
        c.let('expected', c.dict(entry(kind, f)))
        c.let('cls', CLSNAME[kind])
        c.call((cache, '_encoder'), e)
        c.ensure('encoder-no-exception', 'raised is None')
        c.ensure('encoder-writes-tag-and-fields', 'result == expected and len(result) == len(expected)')
        d = c.get('result')
        c.call((cache, '_decoder'), d)
        c.ensure('decoder-no-exception', 'raised is None')
        c.ensure('decoder-class', 'typename(result) == cls and not is_same(result, e)')
        c.ensure('decoder-fields', 'result.ident == e.ident and result.group == e.group and result.name == e.name and '
                 'result.ctype == e.ctype and result.pytype == e.pytype and result.access == e.access')
        if kind == 'param':
            c.ensure('decoder-extended', 'result.extended == e.extended')
        c.ensure('nothing-touched', 'len(trace) == 0')
        w.close()
    return k


for _k in ('log', 'param'):
    _roundtrip(_k)


@contract('C11', 'codec.plain_dict', [TC + ':TocCache._decoder'],
          clause=P_ID + ' - the group and table levels (dicts without a class tag) are passed through unchanged')
def codec_plain(c):
    w = World(c)
    cache = c.new(TC + ':TocCache')
    d = c.dict([(c.str('g', 2), c.dict([]))])
    c.let('d', d)
    c.call((cache, '_decoder'), d)
    c.ensure('same-object', 'raised is None and is_same(result, d) and len(d) == 1')
    w.close()


# ----------------------------------------------------------------------------------------------------------------
# O2  fetch: which file is used, what comes out of it
# ----------------------------------------------------------------------------------------------------------------

LAYOUTS = {                       # name: (ro given, rw given, rw exists before the TocCache is made)
    'none': (False, False, False),
    'ro': (True, False, False),
    'rw': (False, True, True),
    'rw_new': (False, True, False),
    'ro_rw': (True, True, True),
    'ro_rw_new': (True, True, False),
}
# a configured read-only directory that does not exist (yet): it must not be created either (insert.writes only)
RO_MISSING_LAYOUTS = {'ro_missing': (True, False, False), 'ro_missing_rw': (True, True, True), 'ro_missing_rw_new': (True, True, False)}


def make_dirs(c, w, layout):
    if layout in RO_MISSING_LAYOUTS:
        has_ro, has_rw, rw_exists = RO_MISSING_LAYOUTS[layout]
        ro = w.dirpath('ro')
    else:
        has_ro, has_rw, rw_exists = LAYOUTS[layout]
        ro = w.mkdir('ro') if has_ro else None
    rw = (w.mkdir('rw') if rw_exists else w.dirpath('rw')) if has_rw else None
    c.let('ro', ro)
    c.let('rw', rw)
    return ro, rw, rw_exists


def _select(layout):
    @contract('C11', 'fetch.select.' + layout, [TC + ':TocCache.__init__', TC + ':TocCache.fetch', TC + ':TocCache._decoder'],
              clause=P_EQ + '; ' + P_ID + ' - directories: ' + layout.replace('_', ' + ') +
              ' (file A stored under checksum crc_a in the read-only directory, file B under crc_b in the read-write directory, '
              'any announced checksum crc)',
              bounded='one single-entry table per directory')
    def k(c):
        w = World(c)
        ro, rw, rw_exists = make_dirs(c, w, layout)
        crc = c.int('crc', 0, 2 ** 32 - 1)
        has_a, has_b = ro is not None, rw is not None and rw_exists
        c.let('has_a', has_a), c.let('has_b', has_b)
        c.let('crc_a', None), c.let('crc_b', None), c.let('flat_a', None), c.let('flat_b', None)
        if has_a:
            ka = c.choice('kind_a', ['log', 'param'])
            fa = fields(c, 'a', ka)
            w.put_file(ro, c.int('crc_a', 0, 2 ** 32 - 1), [(dict(fa)['group'], [(dict(fa)['name'], entry(ka, fa))])])
            c.let('flat_a', (flat_of(ka, fa),))
        if has_b:
            kb = c.choice('kind_b', ['log', 'param'])
            fb = fields(c, 'b', kb)
            w.put_file(rw, c.int('crc_b', 0, 2 ** 32 - 1), [(dict(fb)['group'], [(dict(fb)['name'], entry(kb, fb))])])
            c.let('flat_b', (flat_of(kb, fb),))
        cache = c.new(TC + ':TocCache', ro_cache=ro, rw_cache=rw)
        c.let('n_ro', w.listing(ro))
        c.let('given', tuple(d for d in (ro, rw) if d))
        c.reset_trace()
        c.call((cache, 'fetch'), crc)
        c.ensure('no-exception', 'raised is None')
        if c.get('result') is None:
            c.ensure('stored-table-is-found', 'not (has_a and crc == crc_a) and not (has_b and crc == crc_b)')
        else:
            c.ensure('used-only-under-the-announced-checksum-and-identical',
                     '(has_a and crc == crc_a and flat(result) == flat_a) or (has_b and crc == crc_b and flat(result) == flat_b)')
        c.ensure('only-a-file-named-by-the-announced-checksum-is-opened',
                 'all(any(e[1][0] == d + "/%08X.json" % crc for d in given) for e in sent("open"))')
        c.ensure('fetch-writes-nothing', 'writes() == () and len(calls("os.makedirs")) == 0')
        c.let('n_ro2', w.listing(ro))
        c.ensure('ro-directory-unchanged', RO_UNCHANGED)
        w.close()
    return k


for _l in LAYOUTS:
    _select(_l)


@contract('C11', 'fetch.foreign-file-names', [TC + ':TocCache.__init__', TC + ':TocCache.fetch', TC + ':TocCache._decoder'],
          clause=P_EQ + '; an otherwise unparsable cache file is a miss, never a failed connection - also a *.json in a cache directory whose '
                 'NAME is not a checksum (index.json, README.json: not written by the library): the cache object is still constructed and the '
                 'tables stored under their checksum are still found',
          bounded='one single-entry table in the read-write directory; foreign names index.json / README.json / 12.json in both directories')
def fetch_foreign_names(c):
    w = World(c)
    ro, rw = w.mkdir('ro'), w.mkdir('rw')
    c.let('ro', ro), c.let('rw', rw)
    name = c.choice('foreign_name', ['index.json', 'README.json', '12.json'])
    w.put_foreign_file(ro, name)
    w.put_foreign_file(rw, name)
    crc = c.int('crc', 0, 2 ** 32 - 1)
    kb = c.choice('kind_b', ['log', 'param'])
    fb = fields(c, 'b', kb)
    w.put_file(rw, c.int('crc_b', 0, 2 ** 32 - 1), [(dict(fb)['group'], [(dict(fb)['name'], entry(kb, fb))])])
    c.let('flat_b', (flat_of(kb, fb),))
    c.call(c.cls(TC + ':TocCache'), ro_cache=ro, rw_cache=rw)
    c.ensure('cache-object-constructed', "raised is None and typename(result) == 'TocCache'")
    if c.get('raised') is not None:
        w.close()
        return
    cache = c.get('result')
    c.reset_trace()
    c.call((cache, 'fetch'), crc)
    c.ensure('no-exception', 'raised is None')
    c.ensure('hit-iff-announced-checksum-is-stored', 'iff(result is not None, crc == crc_b)')
    if c.get('result') is not None:
        c.ensure('identical-table', 'flat(result) == flat_b')
    c.ensure('foreign-file-never-opened', 'all(e[1][0] == rw + "/%08X.json" % crc or e[1][0] == ro + "/%08X.json" % crc for e in sent("open"))')
    w.close()


def _other_version(kind):
    allkeys = KEYS + (('extended',) if kind == 'param' else ())

    @contract('C11', 'fetch.other_version.' + kind, [TC + ':TocCache.__init__', TC + ':TocCache.fetch', TC + ':TocCache._decoder'],
              clause=P_MISS + ' - a well-formed file of another library version whose entries lack one of the fields '
              '(or carry one more) is a miss unless every field of the element class is present; no field is ever made up',
              bounded='single-entry table; at most one missing key')
    def k(c):
        w = World(c)
        where = c.choice('where', ['ro', 'rw'])
        d = w.mkdir(where)
        crc = c.int('crc', 0, 2 ** 32 - 1)
        f = fields(c, 'e', 'param')            # all seven keys; a log entry with 'extended' is the "one more" case
        missing = c.choice('missing', [None] + list(allkeys))
        c.let('complete', missing is None)
        written = [(kk, vv) for kk, vv in f if kk != missing]
        w.put_file(d, crc, [(dict(f)['group'], [(dict(f)['name'], entry(kind, written))])])
        c.let('expected', (flat_of(kind, [(kk, vv) for kk, vv in f if kk in allkeys]),))
        cache = c.new(TC + ':TocCache', **{where + '_cache': d})
        c.reset_trace()
        c.call((cache, 'fetch'), crc)
        c.ensure('no-exception', 'raised is None')
        if c.get('result') is None:
            c.ensure('miss-only-when-a-field-is-missing', 'not complete')
        else:
            c.ensure('hit-only-when-every-field-is-in-the-file', 'complete')
            c.ensure('identical', 'flat(result) == expected')
        c.ensure('fetch-writes-nothing', 'writes() == () and len(calls("os.makedirs")) == 0')
        w.close()
    return k


for _k in ('log', 'param'):
    _other_version(_k)


@contract('C11', 'fetch.damaged', [TC + ':TocCache.__init__', TC + ':TocCache.fetch'],
          clause=P_MISS + ' - the file stored under the announced checksum is cut at any byte offset / deleted after the directory '
          'was listed / not JSON / names an unknown element class / its directory has disappeared',
          bounded='single-entry table (D2 covers every text json.dumps produces for a dict)')
def fetch_damaged(c):
    w = World(c)
    where = c.choice('where', ['ro', 'rw'])
    d = w.mkdir(where)
    crc = c.int('crc', 0, 2 ** 32 - 1)
    kind = c.choice('kind', ['log', 'param'])
    f = fields(c, 'e', kind)
    damage = c.choice('damage', ['cut', 'deleted', 'garbage', 'unknown-class', 'dir-gone'])
    ent = entry(kind, f)
    if damage == 'unknown-class':
        ent = [('__class__', 'NoSuchTocElement')] + ent[1:]
    fh = w.put_file(d, crc, [(dict(f)['group'], [(dict(f)['name'], ent)])])
    if damage == 'cut':
        w.cut_file(fh, c.int('cut', 0, 10 ** 6))
    elif damage == 'garbage':
        w.garble_file(fh)
    cache = c.new(TC + ':TocCache', **{where + '_cache': d})
    if damage == 'deleted':
        w.remove_file(fh)
    elif damage == 'dir-gone':
        w.remove_dir(d)
    c.reset_trace()
    c.call((cache, 'fetch'), crc)
    c.ensure('miss-without-exception', 'raised is None and result is None')
    c.ensure('fetch-writes-nothing', 'writes() == () and len(calls("os.makedirs")) == 0')
    w.close()


# ----------------------------------------------------------------------------------------------------------------
# O3  __init__ / insert: what is written, and where
# ----------------------------------------------------------------------------------------------------------------

def table_of(c, kind, n, tag='t'):
    """a table of n entries built by the real Toc.add_element; returns (toc object, field lists)"""
    toc = c.new(TOCM + ':Toc')
    fl = []
    for i in range(n):
        f = fields(c, '%s%d' % (tag, i), kind)
        fl.append(f)
        c.call((toc, 'add_element'), element(c, kind, f))
    c.let(tag + '_toc', toc)
    return toc, fl


def _writes(layout):
    @contract('C11', 'insert.writes.' + layout, [TC + ':TocCache.__init__', TC + ':TocCache.insert', TC + ':TocCache._encoder'],
              clause=P_RO + ' - directories: ' + layout.replace('_', ' + ') + '; constructing the cache creates at most the read-write '
              'directory; insert never raises, also when the read-write directory has disappeared',
              bounded='tables of 0 or 1 entries; at most one pre-existing file in the read-write directory')
    def k(c):
        w = World(c)
        ro, rw, rw_exists = make_dirs(c, w, layout)
        crc = c.int('crc', 0, 2 ** 32 - 1)
        if ro and layout not in RO_MISSING_LAYOUTS:
            fa = fields(c, 'a', 'log')
            w.put_file(ro, c.int('crc_a', 0, 2 ** 32 - 1), [(dict(fa)['group'], [(dict(fa)['name'], entry('log', fa))])])
        if rw and rw_exists and c.choice('old_file_in_rw', [False, True]):
            fb = fields(c, 'b', 'log')
            w.put_file(rw, c.int('crc_b', 0, 2 ** 32 - 1), [(dict(fb)['group'], [(dict(fb)['name'], entry('log', fb))])])
        c.let('n_ro', w.listing(ro))
        c.let('rw_exists', rw_exists)
        c.reset_trace()
        cache = c.new(TC + ':TocCache', ro_cache=ro, rw_cache=rw)
        c.let('trace', w.calls_so_far())
        c.ensure('constructor-writes-no-file', 'writes() == ()')
        c.ensure('constructor-creates-at-most-the-rw-directory', 'all(e[1] == (rw,) for e in sent("os.makedirs"))')
        c.let('rw_now', w.listing(rw))
        c.ensure('rw-directory-exists-afterwards', 'rw is None or rw_now is not None')
        n = c.choice('entries', [0, 1])
        toc, fl = table_of(c, c.choice('kind', ['log', 'param']) if n else 'log', n)
        gone = rw is not None and c.choice('rw_disappears', [False, True])
        if gone:
            w.remove_dir(rw)
        c.let('gone', gone)
        c.snapshot('table', 't_toc.toc')
        c.reset_trace()
        c.call((cache, 'insert'), crc, c.get('table'))
        c.ensure('no-exception', 'raised is None')
        c.ensure('only-the-file-of-this-checksum-in-rw-is-written',
                 'writes() == ((rw + "/%08X.json" % crc,) if rw is not None else ())')
        c.ensure('no-other-directory-made', 'all(e[1] == (rw,) for e in sent("os.makedirs"))')
        c.let('n_ro2', w.listing(ro))
        c.ensure('ro-directory-unchanged', RO_UNCHANGED)
        w.close()
    return k


for _l in list(LAYOUTS) + list(RO_MISSING_LAYOUTS):
    _writes(_l)


# ----------------------------------------------------------------------------------------------------------------
# histories: store, (crash), (restart), load
# ----------------------------------------------------------------------------------------------------------------

def _history(kind, n):
    @contract('C11', 'history.store_load.%s%d' % (kind, n),
              [TC + ':TocCache.__init__', TC + ':TocCache.insert', TC + ':TocCache.fetch', TC + ':TocCache._encoder',
               TC + ':TocCache._decoder', TOCM + ':Toc.add_element'],
              clause=P_ID + '; ' + P_MISS + ' - history: first session downloads a table and stores it; the write may be cut short at any '
              'byte or the file deleted; the same or a later session (old directory read-write or read-only) asks for the same '
              'checksum; after a miss the table is stored again and then found',
              bounded='%s table with %d entr%s' % (kind, n, 'y' if n == 1 else 'ies'))
    def k(c):
        w = World(c)
        rw = w.dirpath('rw')                     # does not exist yet: first start of a client
        c.let('rw', rw)
        crc = c.int('crc', 0, 2 ** 32 - 1)
        cache = c.new(TC + ':TocCache', rw_cache=rw)
        toc, fl = table_of(c, kind, n)
        c.snapshot('table', 't_toc.toc')
        c.snapshot('stored', 'flat(table)')
        c.let('n', n)
        c.call((cache, 'insert'), crc, c.get('table'))
        c.ensure('stored-without-exception', 'raised is None')
        event = c.choice('event', ['none', 'crash', 'deleted'])
        if event == 'crash':
            w.cut_file(w.file_written_for(rw, crc), c.int('cut', 0, 10 ** 6))
        session = c.choice('session', ['same-object', 'restart', 'restart-old-dir-read-only'])
        c.let('ro', None)
        if session == 'restart':
            cache = c.new(TC + ':TocCache', rw_cache=rw)
        elif session == 'restart-old-dir-read-only':
            c.let('ro', rw)
            rw = w.dirpath('rw2')
            c.let('rw', rw)
            cache = c.new(TC + ':TocCache', ro_cache=c.get('ro'), rw_cache=rw)
        if event == 'deleted':
            w.remove_file(w.file_written_for(c.get('ro') or rw, crc))
        c.let('n_ro', w.listing(c.get('ro')))
        c.reset_trace()
        c.call((cache, 'fetch'), crc)
        c.ensure('no-exception', 'raised is None')
        c.ensure('fetch-writes-nothing', 'writes() == ()')
        if event == 'none':
            c.ensure('stored-table-is-found', 'result is not None')
            if c.get('result') is not None:
                c.ensure('loaded-identical-to-stored', 'flat(result) == stored and len(result) == len(table)')
                c.ensure('loaded-is-a-copy', 'not is_same(result, table)')
        else:
            c.ensure('damaged-or-missing-file-is-a-miss', 'result is None')
            # the fetcher now downloads the table and stores it again
            c.reset_trace()
            c.call((cache, 'insert'), crc, c.get('table'))
            c.ensure('repair-no-exception', 'raised is None')
            c.ensure('repair-writes-only-the-rw-file', 'writes() == (rw + "/%08X.json" % crc,)')
            c.call((cache, 'fetch'), crc)
            c.ensure('repaired-no-exception', 'raised is None')
            c.ensure('repaired-table-is-found', 'result is not None')
            if c.get('result') is not None:
                c.ensure('repaired-identical-to-stored', 'flat(result) == stored')
        c.let('n_ro2', w.listing(c.get('ro')))
        c.ensure('ro-directory-unchanged', RO_UNCHANGED)
        w.close()
    return k


for _k, _n in (('log', 1), ('param', 1), ('log', 2), ('param', 2), ('log', 0)):
    _history(_k, _n)


@contract('C11', 'history.other_checksum', [TC + ':TocCache.__init__', TC + ':TocCache.insert', TC + ':TocCache.fetch'],
          clause=P_EQ + ' - history: a table stored by the library itself under one checksum is never returned for any other '
          'announced checksum, in the same or a later session',
          bounded='single-entry log table')
def history_other(c):
    w = World(c)
    rw = w.mkdir('rw')
    c.let('rw', rw)
    crc1 = c.int('crc1', 0, 2 ** 32 - 1)
    crc2 = c.int('crc2', 0, 2 ** 32 - 1)
    c.require('crc1 != crc2')
    cache = c.new(TC + ':TocCache', rw_cache=rw)
    toc, fl = table_of(c, 'log', 1)
    c.snapshot('table', 't_toc.toc')
    c.call((cache, 'insert'), crc1, c.get('table'))
    c.ensure('stored-without-exception', 'raised is None')
    session = c.choice('session', ['same-object', 'restart', 'restart-old-dir-read-only'])
    if session == 'restart':
        cache = c.new(TC + ':TocCache', rw_cache=rw)
    elif session == 'restart-old-dir-read-only':
        cache = c.new(TC + ':TocCache', ro_cache=rw, rw_cache=w.dirpath('rw2'))
    c.reset_trace()
    c.call((cache, 'fetch'), crc2)
    c.ensure('other-checksum-is-a-miss', 'raised is None and result is None')
    c.ensure('nothing-opened', 'len(sent("open")) == 0')
    w.close()


@contract('C11', 'history.reserved_name', [TC + ':TocCache.insert', TC + ':TocCache.fetch', TC + ':TocCache._decoder'],
          clause=P_ID + '; ' + P_MISS + ' - a group or a variable that is itself called "__class__" (the tag the file format uses) must not '
          'produce a wrong table or an exception: the stored table comes back identical or not at all',
          bounded='single-entry table')
def history_reserved(c):
    w = World(c)
    rw = w.mkdir('rw')
    crc = c.int('crc', 0, 2 ** 32 - 1)
    kind = c.choice('kind', ['log', 'param'])
    which = c.choice('reserved', ['group', 'name'])
    f = [(kk, '__class__' if kk == which else vv) for kk, vv in fields(c, 't0', kind)]
    toc = c.new(TOCM + ':Toc')
    c.call((toc, 'add_element'), element(c, kind, f))
    c.let('toc', toc)
    c.snapshot('table', 'toc.toc')
    c.snapshot('stored', 'flat(table)')
    cache = c.new(TC + ':TocCache', rw_cache=rw)
    c.call((cache, 'insert'), crc, c.get('table'))
    c.ensure('stored-without-exception', 'raised is None')
    c.call((cache, 'fetch'), crc)
    c.ensure('no-exception', 'raised is None')
    if c.get('result') is not None:
        c.ensure('loaded-identical-to-stored', 'flat(result) == stored')
    w.close()


# ----------------------------------------------------------------------------------------------------------------
# O2 (second half)  the fetcher uses the cache only under the announced checksum, and stores under it
# ----------------------------------------------------------------------------------------------------------------

def fetcher(c, v2, cache, element_class, port):
    cf = c.ext('cf', returns={'platform.get_protocol_version': 4 if v2 else 3})
    holder = c.new(TOCM + ':Toc')
    c.let('holder', holder)
    c.snapshot('fresh_table', 'holder.toc')
    f = c.new(TOCM + ':TocFetcher', cf, element_class, port, holder, c.ext('finished'), cache)
    c.let('f', f)
    c.call((f, 'start'))
    c.require('raised is None')
    return f


def info_packet(c, v2, port):
    """TOC info reply: cmd, number of items (u16 in V2, u8 in V1), checksum u32, two more bytes"""
    data = c.bytes('info', 9 if v2 else 8)
    if v2:
        c.snapshot('items', 'info[1] + 256 * info[2]')
        c.snapshot('crc', 'unpack("<I", info[3:7])[0]')
    else:
        c.snapshot('items', 'info[1]')
        c.snapshot('crc', 'unpack("<I", info[2:6])[0]')
    return c.new(STK + ':CRTPPacket', port << 4, data)


def _info_reply(v2):
    @contract('C11', 'fetcher.info_reply.v%d' % (2 if v2 else 1), [TOCM + ':TocFetcher._new_packet_cb', TOCM + ':TocFetcher.start',
                                                                   TOCM + ':TocFetcher._toc_fetch_finished'],
              clause=P_EQ + ' - the fetcher asks the cache exactly once, with the checksum decoded from the device\'s info reply; a '
              'non-empty answer replaces the table and ends the fetch without any download; otherwise the table is left alone '
              'and the download starts (or, for zero items, the empty table is stored under the announced checksum)')
    def k(c):
        port = c.choice('port', [5, 2])
        what = c.choice('cache_answer', ['miss', 'empty-table', 'table'])
        answer = {'miss': None, 'empty-table': c.dict([]), 'table': c.dict([('g', c.dict([('n', c.ext('element'))]))])}[what]
        c.let('answer', answer)
        cache = c.ext('cache', returns={'fetch': answer})
        f = fetcher(c, v2, cache, c.ext('element_class'), port)
        pk = info_packet(c, v2, port)
        c.reset_trace()
        c.call((f, '_new_packet_cb'), pk)
        c.ensure('no-exception', 'raised is None')
        c.ensure('cache-asked-once-with-the-announced-checksum', 'sent("cache.fetch") == (("cache.fetch", (crc,), {}),)')
        c.let('USED', 'is_same(holder.toc, answer) and len(sent("finished")) == 1 and len(sent("cf.send_packet")) == 0 and '
              'len(sent("cache.insert")) == 0 and len(sent("element_class")) == 0')
        c.let('NOT_USED', 'is_same(holder.toc, fresh_table) and len(holder.toc) == 0 and '
              '(len(sent("cf.send_packet")) == 1 and len(sent("finished")) == 0 and len(sent("cache.insert")) == 0 if items > 0 else '
              ' sent("cache.insert") == (("cache.insert", (crc, holder.toc), {}),) and len(sent("finished")) == 1 and '
              ' len(sent("cf.send_packet")) == 0)')
        if what == 'table':
            c.ensure('cached-table-used-without-download', c.get('USED'))
        elif what == 'miss':
            c.ensure('miss-table-left-alone-and-downloaded-or-empty-table-stored-under-announced-checksum', c.get('NOT_USED'))
        else:       # an empty table stored under this checksum: using it and downloading the (empty) table again are both right
            c.ensure('empty-cached-table-used-or-downloaded', '(%s) or (%s)' % (c.get('USED'), c.get('NOT_USED')))
        if sum(1 for e in c.get('trace') if e[0] == 'cf.send_packet') == 1:
            c.snapshot('req', 'sent("cf.send_packet")[0][1][0]')
            c.let('want_req', (2, 0, 0) if v2 else (0, 0))
            c.let('port', port)
            c.ensure('download-starts-with-item-0', 'tuple(req.data) == want_req and req.port == port and req.channel == 0')
    return k


_info_reply(True)
_info_reply(False)


def _download(v2):
    @contract('C11', 'fetcher.download_store.v%d' % (2 if v2 else 1), [TOCM + ':TocFetcher._new_packet_cb', TOCM + ':Toc.add_element'],
              clause=P_EQ + ' - history: after a miss the downloaded table is stored exactly once, under the checksum the device '
              'announced in its info reply, and it is the very table the fetcher filled',
              bounded='one-item table (the element decoding itself is C03)')
    def k(c):
        port = c.choice('port', [5, 2])
        cache = c.ext('cache', returns={'fetch': None})
        elem = element(c, 'log', [('ident', 0), ('group', 'g'), ('name', 'n'), ('ctype', 'float'), ('pytype', '<f'), ('access', 0)])
        c.let('elem', elem)
        f = fetcher(c, v2, cache, c.ext('element_class', returns={'()': elem}), port)
        pk = info_packet(c, v2, port)
        c.require('items == 1')
        c.call((f, '_new_packet_cb'), pk)
        c.require('raised is None')
        item = c.bytes('item', 8)
        c.snapshot('ident', '(item[1] + 256 * item[2])' if v2 else 'item[1]')
        c.reset_trace()
        c.call((f, '_new_packet_cb'), c.new(STK + ':CRTPPacket', port << 4, item))
        c.ensure('no-exception', 'raised is None')
        if len(c.get('trace')) == 0:
            c.ensure('only-an-unrequested-item-is-ignored', 'ident != 0 and len(holder.toc) == 0')
        else:
            c.ensure('requested-item', 'ident == 0')
            c.ensure('stored-once-under-the-announced-checksum',
                     'sent("cache.insert") == (("cache.insert", (crc, holder.toc), {}),) and len(sent("finished")) == 1')
            c.ensure('stored-table-is-the-downloaded-one',
                     'is_same(sent("cache.insert")[0][1][1], holder.toc) and holder.toc == {"g": {"n": elem}}')
        c.ensure('cache-not-asked-again', 'len(sent("cache.fetch")) == 0')
    return k


_download(True)
_download(False)


# ----------------------------------------------------------------------------------------------------------------
# quantifier "all checksum values including collisions between log and parameter tables"
# ----------------------------------------------------------------------------------------------------------------

# FINDING (unchanged tree, replays natively): one TocCache serves both fetchers and names files by checksum only, so when the
# log and the parameter table have the same checksum the second fetcher loads the FIRST fetcher's table (elements of
# the other class).  The two contracts below state the clause and FAIL on the pinned tree.  Until the maintainer of
# this directory has decided between a fix: commit and a known_findings.json entry
#   {"property": "C11", "contract": "collision.log_then_param" | "collision.param_then_log",
#    "obligation": "table-of-the-other-kind-is-not-used", "what": "..."}
# they are run by `./vcheck C11 thorough` only (there they report the VIOLATION with its replay); delete
# PENDING_FINDING from the decorator to run them in the quick tier as well.  The ensure stays class P.
PENDING_FINDING = {}      # recorded in /verif/known_findings.json; runs in both tiers


def _collision(first, second):
    @contract('C11', 'collision.%s_then_%s' % (first, second),
              [TC + ':TocCache.insert', TC + ':TocCache.fetch', TOCM + ':TocFetcher._new_packet_cb'],
              clause='never a wrong table, for all checksum values including collisions between log and parameter tables - history: '
              'the %s table was downloaded and stored under a checksum; the device announces the same checksum for its %s table; '
              'the %s fetcher must end up with %s entries only (or download the table)' % (first, second, second, second),
              bounded='single-entry stored table; V2 info reply', **PENDING_FINDING)
    def k(c):
        w = World(c)
        rw = w.mkdir('rw')
        port = {'log': 5, 'param': 2}[second]
        cache = c.new(TC + ':TocCache', rw_cache=rw)
        f = fetcher(c, True, cache, c.cls(CLS[second]), port)
        pk = info_packet(c, True, port)           # defines crc, items
        c.require('items > 0')
        toc, fl = table_of(c, first, 1)
        c.snapshot('table', 't_toc.toc')
        c.call((cache, 'insert'), c.get('crc'), c.get('table'))
        c.require('raised is None')
        c.reset_trace()
        c.call((f, '_new_packet_cb'), pk)
        c.let('want', CLSNAME[second])
        c.ensure('no-exception', 'raised is None')
        c.ensure('table-of-the-other-kind-is-not-used',
                 'all(typename(e) == want for grp in holder.toc.values() for e in grp.values()) and '
                 '(len(holder.toc) > 0 or len(sent("cf.send_packet")) == 1)')
        w.close()
    return k


_collision('log', 'param')
_collision('param', 'log')
