"""C11 - the table cache never yields a wrong table, even after a crash.

Functions under contract: TocCache.__init__/fetch/insert/_encoder/_decoder (cflib/crazyflie/toccache.py), the cache branch and
the store step of TocFetcher._new_packet_cb, Toc.add_element/clear (cflib/crazyflie/toc.py); end to end: Log.refresh_toc /
Log._new_packet_cb (reset branch), Param.refresh_toc (incl. the nested refresh_done) / _disconnected / _connection_requested,
the element constructors, Crazyflie.__init__ / _platform_info_fetched / _mems_updated_cb, CachedCfFactory.

How the outside world is handled
--------------------------------
The code reaches the outside through open(), glob(), os.path.exists(), os.makedirs(), json.dumps(), json.load()
and eval().  They are NOT replaced by hand-written fakes in the native (CPython) runs: there the real functions run
on a real scratch directory (thin recording wrappers note every call in the trace; the process works inside that
directory and may create / write below it only).  In the symbolic runs they are replaced by the dependency contracts of
class `World` below (a ghost file system + an abstract JSON codec).  Every proved path is re-run natively on a solver
witness, so each dependency contract is sampled against the real json/open/glob/os on every path (a disagreement is an
ENGINE-MISMATCH, exit 3).  So that a harmless refactoring of the library stays decidable the World also answers
`with open(..)`, read(), json.loads / json.dump, os.listdir, os.path.join / basename / dirname / splitext / isdir / isfile.

ASSUMED (dependency contracts, class World, symbolic side):
 D1 json.loads(json.dumps(x, indent=2, default=enc), object_hook=dec) rebuilds x node by node: str/int/bool/None
    leaves are returned unchanged, dict keys (str) and their order are kept, `enc` is applied to every
    non-JSON object and `dec` to every decoded dict, innermost first; JSON arrays (only in files the encoder did not
    write) come back as lists.  (floats, non-str keys: out of subset.)  json.dump(x, f, ..) leaves the text of dumps in f.
 D2 every strict prefix of the text json.dumps() produces for a dict is rejected by json.load with a ValueError
    (the text starts with '{' and its last byte is the matching '}').  This is the crash-safety step; natively it is
    validated on EVERY prefix of every table text a witness produces (World.cut_file), the solver side just uses it.
 D3 open(p) raises FileNotFoundError when p does not exist; open(p, 'w') creates/truncates p when its directory
    exists and raises FileNotFoundError otherwise; write()/close() succeed - except where a contract schedules an I/O
    error (World.write_fails: OSError from write() or from close(), a strict prefix of the text stays on the disk) or
    another session in the middle of the write (World.during_write).
 D4 glob(d + '/*.json') lists exactly the existing files of directory d whose name ends in .json ([] if d does not
    exist); os.path.* / os.listdir / os.makedirs have their documented meaning and makedirs succeeds.
 D5 eval(s) of an identifier is the module global of that name, NameError if there is none.
 D6 the cache directories hold only files named '%08X.json' % checksum (the library's own naming; at most one file
    per directory and checksum, so the order in which glob lists a directory is irrelevant) - except in
    fetch.foreign-file-names, where both directories also hold a *.json whose name is not a checksum.
 D7 int('%08X' % n, 16) == n for 0 <= n < 2**32 (only used when a changed tree parses the checksum back out of a file name).

BOUNDED: tables of at most 2 entries in the quick tier (0, 1, 2; one or two groups), 3 and 4 in the thorough tier; at most one
 pre-existing file per directory (two in fetch.select.two_files_per_directory, thorough); directory names are fixed strings without glob
 meta characters; group/name/type strings have fixed lengths (2-3 symbolic printable ASCII characters - all of ISO-8859-1 1..255
 in history.store_load.*.latin1; strings are atoms for D1, so the length does not take part in any proof step).
 NOT bounded: the table size and the position in the download in fetcher.store_only_when_complete.* (induction step).

WHERE EACH CLAUSE OF THE DESIGN SECTION IS DECIDED
 O1 field identity of encoder/decoder ........ codec.log, codec.param, codec.plain_dict; lifted over whole tables through
    D1 in history.store_load.* (store -> [crash | delete] -> [restart] -> load -> repair -> load), history.reserved_name;
    end to end (device bytes -> element -> file -> element) in session.log.* / session.param.*
 O2 fetch opens only <dir>/<%08X of the announced checksum>.json, returns the table stored under exactly that checksum
    or None, never raises ......................... fetch.select.<layout> (6 layouts of ro/rw directories, file A in ro,
    file B in rw, all three checksums symbolic), fetch.select.two_files_per_directory, history.other_checksum (files written by insert);
    damaged / missing / cut-at-any-byte / foreign-class / vanished files are misses ... fetch.damaged, history.store_load.*;
    a write that fails half way (disk full) never raises and leaves a miss ... history.write_error.*;
    a lookup by another swarm member in the middle of the write is a miss ... swarm.shared_directory (explicit schedule);
    files of other library versions (entries lacking a field) are misses, no field is defaulted ... fetch.other_version.*;
    files whose NAME is not a checksum are ignored, the cache object is still made ... fetch.foreign-file-names;
    well-formed JSON that is not a table: empty documents are misses ... fetch.foreign_content.empty; other shapes ...
    fetch.foreign_content.not_a_table (FAILS on the pinned tree, thorough tier, see the comment there);
    the fetcher asks the cache with the checksum decoded from the info reply, replaces its table only by a non-empty answer,
    otherwise downloads, and stores under the announced checksum ... fetcher.info_reply.v1/v2, fetcher.download_store.*;
    nothing is stored before the table is complete, for any table size ... fetcher.store_only_when_complete.*,
    fetcher.download_store.v*.n2/n3/n6;
    a reconnect / a new process / another device: the table of the announced checksum and nothing of an earlier connection
    ... session.log.*, session.param.* (also: the cached extended markers drive the persistence query), toc.clear
 O3 only <rw>/<%08X>.json is opened for writing, nothing when rw is unset, the constructor creates at most rw, the ro
    directory is never written, insert never raises (also when rw has disappeared) ... insert.writes.<layout>;
    the directories given to Crazyflie(...) / CachedCfFactory(...) reach, in their roles (also the defaults), the cache
    object(s) the connection sequence hands to the two fetchers ... crazyflie.cache_directories.*
 quantifier "collisions between log and parameter tables" ... collision.log_then_param / collision.param_then_log: these
    FAIL on the pinned tree (known finding, /verif/known_findings.json).

NOT COVERED (and why):
 * pre-emption of one TocCache OBJECT by two threads (the library fetches log and param tables one after the other on the
   same thread); two objects on one directory: one interruption point inside the write (swarm.shared_directory), not two writers
   interleaving their flushes;
 * I/O errors while READING, and errors of os.makedirs (permission denied) in the constructor;
 * cache files with wrong leaf TYPES inside a well-formed entry (a string where the index should be);
 * ParamTocElement.persistent is not part of the cached fields (the property does not list it);
 * the decoding of a device payload into an element is C03 (here: fixed type codes, symbolic names, in session.*);
 * LogVariable.__str__ (text formatting) and the parameter persistence / default-value callbacks of param.py (not table cache).
"""
from pyvc.api import contract

TC = 'cflib.crazyflie.toccache'
TOCM = 'cflib.crazyflie.toc'
LOG = 'cflib.crazyflie.log'
PAR = 'cflib.crazyflie.param'
STK = 'cflib.crtp.crtpstack'

CLS = {'log': LOG + ':LogTocElement', 'param': PAR + ':ParamTocElement'}
CLSNAME = {'log': 'LogTocElement', 'param': 'ParamTocElement'}
KEYS = ('ident', 'group', 'name', 'ctype', 'pytype', 'access')

P_EQ = ('a cached table is used only when the checksum announced by the device equals the one it was stored under')
P_ID = ('what is loaded is entry-for-entry identical to what was stored (index, group, name, types, access, extended marker, '
        'element class) for log and parameter tables')
P_MISS = ('a cache file that is missing, truncated at any byte, or otherwise unparsable is a miss (None, no exception), never a '
          'partial or wrong table')
P_RO = 'the read-only cache directory is never written; only <rw_cache>/<%08X of the checksum>.json is ever opened for writing'

# flat(table): the entries of a two-level table in iteration order, one tuple per entry
FLAT = ('lambda t: tuple((g, n, typename(e), e.ident, e.group, e.name, e.ctype, e.pytype, e.access, getattr(e, "extended", None)) '
        'for g, grp in t.items() for n, e in grp.items())')
RO_UNCHANGED = 'n_ro2 == n_ro and (ro is None or all(not p.startswith(ro + "/") for p in writes()))'
# paths opened for writing / creating
WRITES = ('lambda: tuple(e[1][0] for e in sent("open") if (e[1][1] if len(e[1]) > 1 else e[2].get("mode", "r")) != "r")')


# ----------------------------------------------------------------------------------------------------------------
# The world outside the library: ghost file system + JSON codec (symbolic) / scratch directory (native)
# ----------------------------------------------------------------------------------------------------------------

class _Rec:
    """native only: transparent recording wrapper around a real function / module"""

    def __init__(self, trace, name, target):
        self.__dict__.update(_t=trace, _n=name, _x=target)

    def __getattr__(self, a):
        import types
        v = getattr(self._x, a)
        if isinstance(v, types.ModuleType) or callable(v):
            return _Rec(self._t, self._n + '.' + a, v)
        return v

    def __call__(self, *a, **k):
        self._t.append((self._n, tuple(a), dict(k)))
        return self._x(*a, **k)


_CWD0 = []           # native only: the working directory of the process before the first World moved into its scratch directory


def _inside(root, path):
    """native only: the library under check may create / write below the scratch directory only (a changed tree that
    writes somewhere else, e.g. into a default './cache', gets 'permission denied' instead of littering the machine)"""
    import os
    if not os.path.abspath(str(path)).startswith(root + os.sep):
        raise PermissionError(13, 'C11 world: outside the scratch directory of the check', str(path))


class _OsGuard:
    """native only: the real os module, creating directories only below the scratch directory"""

    def __init__(self, root):
        self._root = root

    def __getattr__(self, a):
        import os
        return getattr(os, a)

    def makedirs(self, p, *a, **k):
        import os
        _inside(self._root, p)
        return os.makedirs(p, *a, **k)

    def mkdir(self, p, *a, **k):
        import os
        _inside(self._root, p)
        return os.mkdir(p, *a, **k)


class _GFile:
    """symbolic only: one file of the ghost file system"""

    def __init__(self, path, dirname):
        self.path, self.dirname = path, dirname
        self.chunks = []        # what was written: list of _JText
        self.state = 'ok'       # 'ok' | 'cut' (a strict prefix of the text) | 'garbage' (not JSON at all)


class World:
    def __init__(self, c):
        self.c = c
        self.sym = c.backend == 'sym'
        if self.sym:
            self._sym_init()
        else:
            self._nat_init()
        c.snapshot('flat', FLAT)
        c.snapshot('writes', WRITES)

    # ------------------------------------------------------------------ native: real directory, real json/open/glob/os
    def _nat_init(self):
        import atexit
        import builtins
        import glob
        import importlib
        import os
        import shutil
        import tempfile
        self.root = tempfile.mkdtemp(prefix='pyvc-C11-')
        atexit.register(shutil.rmtree, self.root, True)
        # relative paths (a default cache directory such as './cache' in a changed tree) land in the scratch directory too
        if not _CWD0:
            _CWD0.append(os.getcwd())
        os.chdir(self.root)
        m = self.mod = importlib.import_module(TC)
        tr = self.c.trace
        m.open = _Rec(tr, 'open', self._nat_open)       # module global shadowing the builtin; removed again in close()
        m.glob = _Rec(tr, 'glob', glob.glob)
        m.os = _Rec(tr, 'os', _OsGuard(self.root))
        self.write_event = None

    def _nat_open(self, *a, **k):
        """native only: the real open(); a file opened for writing while a write event is scheduled (see write_fails /
        during_write) is wrapped so that the event happens in the middle of the real write"""
        import builtins
        mode = a[1] if len(a) > 1 else k.get('mode', 'r')
        if mode != 'r':
            _inside(self.root, a[0])
        f = builtins.open(*a, **k)
        if self.write_event is not None and mode != 'r':
            ev, self.write_event = self.write_event, None
            return _NatFile(f, ev)
        return f

    # ------------------------------------------------------------------ symbolic: dependency contracts D1-D5
    def _sym_init(self):
        from pyvc.values import Builtin, BuiltinType, ModuleVal
        I = self.I = self.c.I
        self.root = '/c11'
        self.dirs = [self.root, '.']            # '.': the working directory exists (a relative default directory can be created)
        self.files = []
        mod = I.load_module(TC)
        self.mod = mod
        self.write_event = None
        js = ModuleVal('json', None)
        js.attrs['load'] = Builtin('json.load', self._s_load)
        js.attrs['loads'] = Builtin('json.loads', self._s_loads)
        js.attrs['dumps'] = Builtin('json.dumps', self._s_dumps)
        js.attrs['dump'] = Builtin('json.dump', self._s_dump)
        osp = ModuleVal('os.path', None)
        osp.attrs['exists'] = Builtin('os.path.exists', self._s_exists)
        osp.attrs['isdir'] = Builtin('os.path.isdir', self._s_isdir)
        osp.attrs['isfile'] = Builtin('os.path.isfile', self._s_isfile)
        osp.attrs['basename'] = Builtin('os.path.basename', self._s_basename)
        osp.attrs['dirname'] = Builtin('os.path.dirname', self._s_dirname)
        osp.attrs['splitext'] = Builtin('os.path.splitext', self._s_splitext)
        osp.attrs['join'] = Builtin('os.path.join', self._s_join)
        osm = ModuleVal('os', None)
        osm.attrs['path'] = osp
        osm.attrs['sep'] = '/'
        osm.attrs['makedirs'] = Builtin('os.makedirs', self._s_makedirs)
        osm.attrs['listdir'] = Builtin('os.listdir', self._s_listdir)
        osm.attrs['remove'] = Builtin('os.remove', self._s_remove)
        osm.attrs['unlink'] = Builtin('os.unlink', self._s_remove)
        osm.attrs['replace'] = Builtin('os.replace', self._s_replace)
        osm.attrs['rename'] = Builtin('os.rename', self._s_replace)
        from pyvc import models as M
        from pyvc.values import ExcClass
        if 'json.JSONDecodeError' not in M._EXC:                 # what json.load raises: a ValueError
            M._EXC['json.JSONDecodeError'] = ExcClass('json.JSONDecodeError', [M.exc_class(I, 'ValueError')])
        js.attrs['JSONDecodeError'] = M._EXC['json.JSONDecodeError']
        self.hexnames = []          # (characters of '%08X' % crc, crc) for every file name the environment made (D7)
        mod.attrs.update({'open': Builtin('open', self._s_open), 'glob': Builtin('glob', self._s_glob),
                          'eval': Builtin('eval', self._s_eval), 'int': BuiltinType('int', self._s_int), 'json': js, 'os': osm})
        I.note_assumption('C11 dependency contracts D1-D6 for json/open/glob/os/eval (see contracts/C11.py), sampled natively on every path')

    def _oos(self, what):
        from pyvc.core import OutOfSubset
        raise OutOfSubset('C11 world model: ' + what)

    def _conc_str(self, v, what):
        if not isinstance(v, str):
            self._oos('%s must be a concrete string, got %r' % (what, v))
        return v

    def _dirname(self, path):
        """directory part of a path whose directory is concrete (the file name may be symbolic)"""
        from pyvc.values import PStr
        if isinstance(path, str):
            chars = [ord(ch) for ch in path]
        elif isinstance(path, PStr):
            chars = list(path.chars)
        else:
            self.I.raise_py('TypeError', 'expected str, bytes or os.PathLike object')
        cut = None
        for i, ch in enumerate(chars):
            if isinstance(ch, int) and ch == 47:
                cut = i
            elif not isinstance(ch, int):
                # a symbolic character: by the input ranges used here (hex digits) it is never '/'
                if not self.I.path.must(ch.t != 47):
                    self._oos('path with a symbolic character that may be "/"')
        if cut is None or any(not isinstance(ch, int) for ch in chars[:cut]):
            self._oos('path without a concrete directory: %r' % (path,))
        return ''.join(chr(ch) for ch in chars[:cut])

    def _lookup(self, path):
        from pyvc.ops import py_eq
        for f in self.files:
            if f.path is path:
                return f
        for f in self.files:
            r = py_eq(self.I, f.path, path)
            if r is True or (r is not False and self.I.path.decide(r.t)):
                return f
        return None

    def _s_glob(self, I, a, k):
        pat = self._conc_str(a[0], 'glob pattern')
        I.trace.append(('glob', tuple(a), dict(k)))
        if not pat.endswith('/*.json') or any(ch in pat[:-7] for ch in '*?['):
            self._oos('glob pattern %r' % pat)
        from pyvc.values import PList
        return PList([f.path for f in self.files if f.dirname == pat[:-7]])

    def _s_exists(self, I, a, k):
        I.trace.append(('os.path.exists', tuple(a), dict(k)))
        if isinstance(a[0], str) and a[0] in self.dirs:
            return True
        return self._file_at(a[0]) is not None

    def _file_at(self, path):
        """the ghost file with this path (None if there is none or its directory is gone)"""
        return self._lookup(path) if self._dirname(path) in self.dirs else None

    def _s_isdir(self, I, a, k):
        I.trace.append(('os.path.isdir', tuple(a), dict(k)))
        return isinstance(a[0], str) and a[0] in self.dirs

    def _s_isfile(self, I, a, k):
        I.trace.append(('os.path.isfile', tuple(a), dict(k)))
        if isinstance(a[0], str) and a[0] in self.dirs:
            return False
        return self._file_at(a[0]) is not None

    def _chars(self, v, what):
        from pyvc.values import PStr
        if isinstance(v, str):
            return [ord(ch) for ch in v]
        if isinstance(v, PStr):
            return list(v.chars)
        self.I.raise_py('TypeError', '%s: expected str, bytes or os.PathLike object' % what)

    def _never(self, ch, code):
        """character ch (concrete or symbolic) is certainly not `code`; undecidable -> out of subset"""
        if isinstance(ch, int):
            return ch != code
        if self.I.path.must(ch.t != code):
            return True
        self._oos('a symbolic path character that may be %r' % chr(code))

    def _s_basename(self, I, a, k):
        from pyvc.ops import mk_seq
        chars = self._chars(a[0], 'basename')
        cut = max([i for i, ch in enumerate(chars) if not self._never(ch, 47)] or [-1])
        return mk_seq('str', chars[cut + 1:])

    def _s_dirname(self, I, a, k):
        from pyvc.ops import mk_seq
        chars = self._chars(a[0], 'dirname')
        sl = [i for i, ch in enumerate(chars) if not self._never(ch, 47)]
        if not sl:
            return ''
        head = chars[:sl[-1] + 1]
        if any(ch != 47 for ch in head):
            while head and head[-1] == 47:
                head.pop()
        return mk_seq('str', head)

    def _s_splitext(self, I, a, k):
        """posixpath.splitext: the extension starts at the last dot of the last component, unless that component has
        only leading dots before it"""
        from pyvc.ops import mk_seq
        chars = self._chars(a[0], 'splitext')
        sep = max([i for i, ch in enumerate(chars) if not self._never(ch, 47)] or [-1])
        dot = max([i for i, ch in enumerate(chars) if not self._never(ch, 46)] or [-1])
        if dot > sep:
            j = sep + 1
            while j < dot:
                if not (isinstance(chars[j], int) and chars[j] == 46):
                    return (mk_seq('str', chars[:dot]), mk_seq('str', chars[dot:]))
                j += 1
        return (mk_seq('str', chars), '')

    def _s_join(self, I, a, k):
        from pyvc.ops import mk_seq
        out = self._chars(a[0], 'join')
        for part in a[1:]:
            pc = self._chars(part, 'join')
            if pc and not self._never(pc[0], 47):
                out = pc
            elif not out or out[-1] == 47:
                out = out + pc
            else:
                out = out + [47] + pc
        return mk_seq('str', out)

    def _s_remove(self, I, a, k):
        I.trace.append(('os.remove', tuple(a), dict(k)))
        gf = self._file_at(a[0])
        if gf is None:
            I.raise_py('FileNotFoundError', 2, 'No such file or directory')
        self.files.remove(gf)

    def _s_replace(self, I, a, k):
        """os.replace / os.rename of a file onto a file name in an existing directory"""
        I.trace.append(('os.replace', tuple(a), dict(k)))
        gf = self._file_at(a[0])
        d = self._dirname(a[1])
        if gf is None or d not in self.dirs:
            I.raise_py('FileNotFoundError', 2, 'No such file or directory')
        old = self._lookup(a[1])
        if old is not None and old is not gf:
            self.files.remove(old)
        gf.path, gf.dirname = a[1], d

    def _s_listdir(self, I, a, k):
        from pyvc.values import PList
        p = self._conc_str(a[0], 'os.listdir argument')
        I.trace.append(('os.listdir', tuple(a), dict(k)))
        if p not in self.dirs:
            I.raise_py('FileNotFoundError', 2, 'No such file or directory')
        names = [self._s_basename(I, [f.path], {}) for f in self.files if f.dirname == p]
        return PList(names + [d[len(p) + 1:] for d in self.dirs if d.startswith(p + '/') and '/' not in d[len(p) + 1:]])

    def _s_makedirs(self, I, a, k):
        p = self._conc_str(a[0], 'os.makedirs argument')
        I.trace.append(('os.makedirs', tuple(a), dict(k)))
        if p in self.dirs:
            I.raise_py('FileExistsError', 17, 'File exists')
        parent = p.rsplit('/', 1)[0]
        if parent not in self.dirs:
            self._oos('makedirs below a missing parent')
        self.dirs.append(p)

    def _mk_file_obj(self, gf, methods):
        from pyvc.values import Builtin, Ext
        fo = Ext('file', auto=False)
        fo.gfile = gf
        for nm, fn in methods.items():
            ch = Ext('file.' + nm)
            ch.parent, ch.method_name = fo, nm
            fo.returns[nm] = fn
            fo.attrs[nm] = ch
        # `with open(...) as f:` - leaving the block closes the file (and reports what close() reports)
        fo.attrs['__enter__'] = Builtin('file.__enter__', lambda I_, a_, k_: fo)

        def _exit(I_, a_, k_):
            methods['close'](I_, [], {})
            return False
        fo.attrs['__exit__'] = Builtin('file.__exit__', _exit)
        return fo

    def _s_open(self, I, a, k):
        path = a[0]
        mode = a[1] if len(a) > 1 else k.get('mode', 'r')
        if len(a) > 2 or set(k) - {'mode'}:
            self._oos('open() with buffering/encoding arguments')
        I.trace.append(('open', tuple(a), dict(k)))
        d = self._dirname(path)
        if mode in ('r', 'rt'):
            gf = self._lookup(path) if d in self.dirs else None
            if gf is None:
                I.raise_py('FileNotFoundError', 2, 'No such file or directory')

            def read(I_, a_, k_):
                if a_ or k_:
                    self._oos('read() with a size')
                return self._content(gf)
            return self._mk_file_obj(gf, {'close': lambda I_, a_, k_: None, 'read': read})
        if mode in ('w', 'wt'):
            if d not in self.dirs:
                I.raise_py('FileNotFoundError', 2, 'No such file or directory')
            gf = self._lookup(path)
            if gf is None:
                gf = _GFile(path, d)
                self.files.append(gf)
            gf.chunks, gf.state = [], 'ok'          # 'w' truncates
            ev, self.write_event = self.write_event, None
            st = {'ev': ev}

            def write(I_, a_, k_):
                if not isinstance(a_[0], _jtext_class()):
                    self._oos('write of something that is not the result of json.dumps: %r' % (a_[0],))
                gf.chunks.append(a_[0])
                e, st['ev'] = st['ev'], (st['ev'] if st['ev'] and st['ev'][0] == 'close-fails' else None)
                if e is None:
                    return None
                if e[0] == 'write-fails':            # a strict prefix reached the disk, then the device reported an error
                    gf.state = 'cut'
                    I_.raise_py('OSError', 28, 'No space left on device')
                if e[0] == 'close-fails':            # the text sits in the buffer; flushing it at close() fails half way
                    gf.state = 'cut'
                if e[0] == 'during':                 # another session runs while a strict prefix is on the disk
                    gf.state = 'cut'
                    e[1]()
                    if gf in self.files and gf.chunks and gf.chunks[-1] is a_[0]:
                        gf.state = 'ok'
                return None

            def close(I_, a_, k_):
                e, st['ev'] = st['ev'], None
                if e is not None and e[0] == 'close-fails':
                    if not gf.chunks:
                        return None                  # nothing was written, nothing to flush
                    I_.raise_py('OSError', 28, 'No space left on device')
                return None
            return self._mk_file_obj(gf, {'write': write, 'close': close})
        self._oos('open mode %r' % (mode,))

    def _content(self, gf):
        """what read() returns: the JSON text that was written, or a text that is no JSON document"""
        if gf.state != 'ok' or len(gf.chunks) == 0:
            return _badtext_class()()
        if len(gf.chunks) != 1:
            self._oos('file written in several pieces')
        return gf.chunks[0]

    def _s_eval(self, I, a, k):
        if len(a) != 1 or k:
            self._oos('eval with explicit name spaces')
        s = a[0]
        from pyvc.values import PStr
        if isinstance(s, PStr):
            self._oos('eval of a symbolic string')
        if not isinstance(s, str):
            I.raise_py('TypeError', 'eval() arg 1 must be a string, bytes or code object')
        if not s.isidentifier() or s in ('self', 'obj', 'elem'):
            self._oos('eval of %r (only global identifiers are modelled)' % s)
        if s in self.mod.attrs:
            return self.mod.attrs[s]
        b = I.models.builtin(I, s)
        if b is not None:
            return b
        I.raise_py('NameError', "name '%s' is not defined" % s)

    def _s_int(self, I, a, k):
        """D7: int('%08X' % n, 16) == n for 0 <= n < 2**32 - used when the code parses the checksum back out of a file name
        the environment built from a symbolic checksum (digit-by-digit conversion of 8 symbolic hex digits would fork
        2**8 ways); everything else is the interpreter's own int()"""
        from pyvc.values import PStr
        if len(a) == 2 and not k and a[1] == 16 and isinstance(a[0], PStr):
            for chars, crc in self.hexnames:
                if len(chars) == len(a[0].chars) and all(x is y or (hasattr(x, 't') and hasattr(y, 't') and x.t.eq(y.t))
                                                         for x, y in zip(chars, a[0].chars)):
                    return crc
        return I.call(I.models.builtin(I, 'int'), list(a), dict(k))

    def _to_json(self, v, default, depth=0):
        from pyvc.values import PDict, PStr, SInt, SBool
        if depth > 8:
            self._oos('json nesting')
        if v is None or isinstance(v, (bool, int, str, PStr, SInt, SBool)) and not isinstance(v, float):
            return v
        if isinstance(v, PDict):
            out = PDict()
            for kk, vv in zip(v.keys, v.vals):
                if not isinstance(kk, (str, PStr)):
                    self._oos('json object key that is not a str')
                out.keys.append(kk)
                out.vals.append(self._to_json(vv, default, depth + 1))
            return out
        from pyvc.values import Obj
        if isinstance(v, Obj):
            if default is None:
                self.I.raise_py('TypeError', 'Object is not JSON serializable')
            return self._to_json(self.I.call(default, [v], {}), default, depth + 1)
        self._oos('json.dumps of %r' % (v,))

    def _from_json(self, v, hook):
        from pyvc.values import PDict, PList
        if isinstance(v, PDict):
            d = PDict([(kk, self._from_json(vv, hook)) for kk, vv in zip(v.keys, v.vals)])
            return self.I.call(hook, [d], {}) if hook is not None else d
        if isinstance(v, PList):                    # a JSON array (only in files the encoder did not write)
            return PList([self._from_json(x, hook) for x in v.items])
        return v

    def _s_dumps(self, I, a, k):
        if len(a) != 1 or set(k) - {'indent', 'default'}:
            self._oos('json.dumps arguments %r' % (sorted(k),))
        return _jtext_class()(self._to_json(a[0], k.get('default')))

    def _s_dump(self, I, a, k):
        """json.dump(obj, fp, ...) = fp.write(json.dumps(obj, ...)) as far as the resulting file is concerned (the real
        function writes the same text in several pieces; a crash leaves a prefix of it either way)"""
        if len(a) != 2 or set(k) - {'indent', 'default'}:
            self._oos('json.dump arguments %r' % (sorted(k),))
        text = _jtext_class()(self._to_json(a[0], k.get('default')))
        I.call(I.getattr(a[1], 'write'), [text], {})
        return None

    def _s_load(self, I, a, k):
        if len(a) != 1 or set(k) - {'object_hook'}:
            self._oos('json.load arguments %r' % (sorted(k),))
        gf = getattr(a[0], 'gfile', None)
        if gf is None:
            self._oos('json.load of %r' % (a[0],))
        return self._s_loads(I, [self._content(gf)], k)

    def _s_loads(self, I, a, k):
        if len(a) != 1 or set(k) - {'object_hook'}:
            self._oos('json.loads arguments %r' % (sorted(k),))
        if isinstance(a[0], _badtext_class()):
            I.raise_py('json.JSONDecodeError', 'Expecting value')  # D2 / not JSON / empty file
        if not isinstance(a[0], _jtext_class()):
            self._oos('json.loads of %r' % (a[0],))
        return self._from_json(a[0].value, k.get('object_hook'))

    # ------------------------------------------------------------------ operations of the environment (both worlds)
    def mkdir(self, name):
        p = self.root + '/' + name
        if self.sym:
            self.dirs.append(p)
        else:
            import os
            os.mkdir(p)
        return p

    def dirpath(self, name):
        return self.root + '/' + name

    def hex8_name(self, crc):
        """'%08X.json' % crc, written down independently of the library's formatting code"""
        if not self.sym or isinstance(crc, int):
            return '%08X.json' % crc
        import z3
        from pyvc.ops import mk_int, mk_seq
        chars = []
        for i in range(7, -1, -1):
            dg = (crc.t / (16 ** i)) % 16
            chars.append(mk_int(z3.If(dg < 10, dg + 48, dg + 55)))
        self.hexnames.append((tuple(chars), crc))
        return mk_seq('str', chars + [ord(ch) for ch in '.json'])

    def put_file(self, dirpath, crc, table):
        """a cache file written earlier (by this or another version of the library).
        table: [(group, [(name, [(key, value), ...]), ...]), ...]"""
        if self.sym:
            from pyvc.values import PDict
            from pyvc.ops import seq_concat
            doc = PDict([(g, PDict([(n, PDict(list(ent))) for n, ent in grp])) for g, grp in table])
            gf = _GFile(seq_concat(self.I, dirpath + '/', self.hex8_name(crc)), dirpath)
            gf.chunks = [_jtext_class()(doc)]
            self.files.append(gf)
            return gf
        import json
        p = dirpath + '/' + self.hex8_name(crc)
        with open(p, 'w') as f:
            f.write(json.dumps({g: {n: dict(ent) for n, ent in grp} for g, grp in table}, indent=2))
        return p

    def put_json(self, dirpath, crc, doc):
        """a file named like a cache file that holds an arbitrary JSON document (python dict / list / str / int / None)"""
        if self.sym:
            from pyvc.values import PDict, PList
            from pyvc.ops import seq_concat

            def lift(v):
                if isinstance(v, dict):
                    return PDict([(kk, lift(vv)) for kk, vv in v.items()])
                if isinstance(v, list):
                    return PList([lift(x) for x in v])
                return v
            gf = _GFile(seq_concat(self.I, dirpath + '/', self.hex8_name(crc)), dirpath)
            gf.chunks = [_jtext_class()(lift(doc))]
            self.files.append(gf)
            return gf
        import json
        p = dirpath + '/' + self.hex8_name(crc)
        with open(p, 'w') as f:
            f.write(json.dumps(doc, indent=2))
        return p

    def put_foreign_file(self, dirpath, name):
        """a file that is not the library's: a *.json whose name is not a checksum (an editor's index.json, a README.json ...);
        its content is an empty JSON object"""
        if self.sym:
            gf = _GFile(dirpath + '/' + name, dirpath)
            gf.state = 'garbage'
            self.files.append(gf)
            return gf
        p = dirpath + '/' + name
        with open(p, 'w') as f:
            f.write('{}')
        return p

    def file_written_for(self, dirpath, crc):
        """handle of the file <dirpath>/<%08X of crc>.json (None if there is none)"""
        if self.sym:
            from pyvc.ops import seq_concat
            return self._lookup(seq_concat(self.I, dirpath + '/', self.hex8_name(crc))) if dirpath in self.dirs else None
        import os
        p = dirpath + '/' + self.hex8_name(crc)
        return p if os.path.isfile(p) else None

    def cut_file(self, fh, cut):
        """the process died while writing: only a strict prefix of the text (length chosen by `cut`) reached the disk"""
        if fh is None:
            return                          # nothing was written, nothing to cut
        if self.sym:
            if fh.chunks:
                fh.state = 'cut'
            return
        import json
        text = open(fh).read()
        if not text:
            return
        for i in range(len(text)):          # D2, validated on every prefix of this text
            try:
                json.loads(text[:i])
            except ValueError:
                continue
            raise AssertionError('dependency contract D2 violated: prefix %d of %r parses' % (i, text))
        import zlib
        with open(fh, 'w') as f:        # (cut + constant) mod length: every offset is reached by some cut, witnesses are spread
            f.write(text[:(cut + zlib.crc32(text.encode())) % len(text)])

    def write_fails(self, where, cut):
        """the next file opened for writing hits an I/O error (disk full) after a strict prefix of the text reached the
        disk; the error is reported by write() or only by close() (`where`)"""
        self.write_event = (where + '-fails', cut)

    def during_write(self, hook, cut):
        """while the next file opened for writing holds only a strict prefix of its text, hook() runs (another session)"""
        self.write_event = ('during', hook, cut)

    def garble_file(self, fh):
        if self.sym:
            fh.state = 'garbage'
            return
        with open(fh, 'w') as f:
            f.write('this is not { json')

    def remove_file(self, fh):
        if fh is None:
            return
        if self.sym:
            self.files.remove(fh)
            return
        import os
        os.remove(fh)

    def remove_dir(self, dirpath):
        if self.sym:
            self.dirs = [d for d in self.dirs if d != dirpath and not d.startswith(dirpath + '/')]
            self.files = [f for f in self.files if f.dirname != dirpath]
            return
        import shutil
        shutil.rmtree(dirpath, True)

    def listing(self, dirpath):
        """the entries of a directory as a comparable value (names natively, file identities in the ghost file system;
        None if the directory does not exist).  File CONTENTS change only through open(.., 'w'), which the trace shows."""
        if dirpath is None:
            return ()
        if self.sym:
            if dirpath not in self.dirs:
                return None
            return tuple(id(f) for f in self.files if f.dirname == dirpath) + tuple(d for d in self.dirs if d.startswith(dirpath + '/'))
        import os
        if not os.path.isdir(dirpath):
            return None
        return tuple(sorted(os.listdir(dirpath)))

    def calls_so_far(self):
        """the trace up to now (c.new does not publish it)"""
        return tuple(self.I.trace) if self.sym else tuple(self.c.trace)

    def close(self):
        if not self.sym:
            import glob
            import os
            import shutil
            os.chdir(_CWD0[0])
            shutil.rmtree(self.root, True)
            vars(self.mod).pop('open', None)
            self.mod.glob, self.mod.os = glob.glob, os


class _NatFile:
    """native only: a real file opened for writing, with one scheduled event in the middle of the write.
    ('write-fails', cut) the device reports an error after a strict prefix of the text was written;
    ('close-fails', cut) the same, but reported by close(); ('during', hook, cut) hook() runs while a strict prefix of
    the text is on the disk, then the write goes on."""

    def __init__(self, f, ev):
        self._f, self._ev, self._dead = f, ev, False

    def _prefix(self, s):
        import zlib
        return s[:(self._ev[-1] + zlib.crc32(s.encode())) % len(s)] if s else s

    def write(self, s):
        ev = self._ev
        if self._dead:
            return len(s)
        if ev is None:
            return self._f.write(s)
        if ev[0] == 'during':
            self._ev = None
            head = s[:(ev[-1]) % len(s)] if s else s
            self._f.write(head)
            self._f.flush()
            ev[1]()
            self._f.write(s[len(head):])
            return len(s)
        self._f.write(self._prefix(s))
        self._f.flush()
        self._dead = True
        if ev[0] == 'write-fails':
            self._ev = None
            raise OSError(28, 'No space left on device')
        return len(s)

    def close(self):
        ev, self._ev = self._ev, None
        self._f.close()
        if ev is not None and ev[0] == 'close-fails' and self._dead:
            raise OSError(28, 'No space left on device')

    def __enter__(self):
        return self

    def __exit__(self, *a):
        self.close()
        return False

    def __getattr__(self, nm):
        return getattr(self._f, nm)


_JT = []
_BT = []


def _badtext_class():
    """symbolic only: the content of a file that is not a JSON document (cut short, garbage, empty)"""
    if not _BT:
        from pyvc.values import Opaque

        class _BadText(Opaque):
            def __init__(self):
                Opaque.__init__(self, 'text that is no JSON document')
        _BT.append(_BadText)
    return _BT[0]


def _jtext_class():
    """symbolic only: the text json.dumps returns, kept as the JSON value it denotes (D1)"""
    if not _JT:
        from pyvc.values import Opaque

        class _JText(Opaque):
            def __init__(self, value):
                Opaque.__init__(self, 'json text')
                self.value = value
        _JT.append(_JText)
    return _JT[0]


# ----------------------------------------------------------------------------------------------------------------
# inputs
# ----------------------------------------------------------------------------------------------------------------

def fields(c, tag, kind, lo=32, hi=126):
    """symbolic field values of one table entry (group and name: characters lo..hi; the device sends ISO-8859-1 bytes 1..255)"""
    f = [('ident', c.int(tag + '_id', 0, 65535)), ('group', c.str(tag + '_g', 2, lo, hi)), ('name', c.str(tag + '_n', 2, lo, hi)),
         ('ctype', c.str(tag + '_ct', 3)), ('pytype', c.str(tag + '_pt', 2)), ('access', c.int(tag + '_acc', 0, 255))]
    if kind == 'param':
        f.append(('extended', c.bool(tag + '_x')))
    return f


def element(c, kind, f):
    """a real element object with these fields (the constructors only parse device payloads)"""
    d = dict(f)
    if kind == 'param':
        d.setdefault('persistent', False)
    return c.obj(CLS[kind], **d)


def entry(kind, f):
    """what the encoder of the library writes for such an element: the file format"""
    return [('__class__', CLSNAME[kind])] + list(f)


def flat_of(kind, f):
    d = dict(f)
    return (d['group'], d['name'], CLSNAME[kind], d['ident'], d['group'], d['name'], d['ctype'], d['pytype'], d['access'],
            d.get('extended'))


# ----------------------------------------------------------------------------------------------------------------
# O1  field identity of encoder / decoder
# ----------------------------------------------------------------------------------------------------------------

def _roundtrip(kind):
    @contract('C11', 'codec.' + kind, [TC + ':TocCache._encoder', TC + ':TocCache._decoder'],
              clause=P_ID + ' - per entry: the encoder writes exactly the class tag and the fields, the decoder rebuilds an '
              'element of that class with exactly these fields')
    def k(c):
        w = World(c)
        cache = c.new(TC + ':TocCache')
        f = fields(c, 'e', kind)
        e = element(c, kind, f)
        c.let('e', e)
        c.let('expected', c.dict(entry(kind, f)))
        c.let('cls', CLSNAME[kind])
        c.call((cache, '_encoder'), e)
        c.ensure('encoder-no-exception', 'raised is None')
        c.ensure('encoder-writes-tag-and-fields', 'result == expected and len(result) == len(expected)')
        d = c.get('result')
        c.call((cache, '_decoder'), d)
        c.ensure('decoder-no-exception', 'raised is None')
        c.ensure('decoder-class', 'typename(result) == cls and not is_same(result, e)')
        c.ensure('decoder-fields', 'result.ident == e.ident and result.group == e.group and result.name == e.name and '
                 'result.ctype == e.ctype and result.pytype == e.pytype and result.access == e.access')
        if kind == 'param':
            c.ensure('decoder-extended', 'result.extended == e.extended')
        c.ensure('nothing-touched', 'len(trace) == 0')
        w.close()
    return k


for _k in ('log', 'param'):
    _roundtrip(_k)


@contract('C11', 'codec.plain_dict', [TC + ':TocCache._decoder'],
          clause=P_ID + ' - the group and table levels (dicts without a class tag) are passed through unchanged')
def codec_plain(c):
    w = World(c)
    cache = c.new(TC + ':TocCache')
    d = c.dict([(c.str('g', 2), c.dict([]))])
    c.let('d', d)
    c.call((cache, '_decoder'), d)
    c.ensure('same-object', 'raised is None and is_same(result, d) and len(d) == 1')
    w.close()


# ----------------------------------------------------------------------------------------------------------------
# O2  fetch: which file is used, what comes out of it
# ----------------------------------------------------------------------------------------------------------------

LAYOUTS = {                       # name: (ro given, rw given, rw exists before the TocCache is made)
    'none': (False, False, False),
    'ro': (True, False, False),
    'rw': (False, True, True),
    'rw_new': (False, True, False),
    'ro_rw': (True, True, True),
    'ro_rw_new': (True, True, False),
}
# a configured read-only directory that does not exist (yet): it must not be created either (insert.writes only)
RO_MISSING_LAYOUTS = {'ro_missing': (True, False, False), 'ro_missing_rw': (True, True, True), 'ro_missing_rw_new': (True, True, False)}


def make_dirs(c, w, layout):
    if layout in RO_MISSING_LAYOUTS:
        has_ro, has_rw, rw_exists = RO_MISSING_LAYOUTS[layout]
        ro = w.dirpath('ro')
    else:
        has_ro, has_rw, rw_exists = LAYOUTS[layout]
        ro = w.mkdir('ro') if has_ro else None
    rw = (w.mkdir('rw') if rw_exists else w.dirpath('rw')) if has_rw else None
    c.let('ro', ro)
    c.let('rw', rw)
    return ro, rw, rw_exists


def _select(layout):
    @contract('C11', 'fetch.select.' + layout, [TC + ':TocCache.__init__', TC + ':TocCache.fetch', TC + ':TocCache._decoder'],
              clause=P_EQ + '; ' + P_ID + ' - directories: ' + layout.replace('_', ' + ') +
              ' (file A stored under checksum crc_a in the read-only directory, file B under crc_b in the read-write directory, '
              'any announced checksum crc)',
              bounded='one single-entry table per directory')
    def k(c):
        w = World(c)
        ro, rw, rw_exists = make_dirs(c, w, layout)
        crc = c.int('crc', 0, 2 ** 32 - 1)
        has_a, has_b = ro is not None, rw is not None and rw_exists
        c.let('has_a', has_a), c.let('has_b', has_b)
        c.let('crc_a', None), c.let('crc_b', None), c.let('flat_a', None), c.let('flat_b', None)
        if has_a:
            ka = c.choice('kind_a', ['log', 'param'])
            fa = fields(c, 'a', ka)
            w.put_file(ro, c.int('crc_a', 0, 2 ** 32 - 1), [(dict(fa)['group'], [(dict(fa)['name'], entry(ka, fa))])])
            c.let('flat_a', (flat_of(ka, fa),))
        if has_b:
            kb = c.choice('kind_b', ['log', 'param'])
            fb = fields(c, 'b', kb)
            w.put_file(rw, c.int('crc_b', 0, 2 ** 32 - 1), [(dict(fb)['group'], [(dict(fb)['name'], entry(kb, fb))])])
            c.let('flat_b', (flat_of(kb, fb),))
        cache = c.new(TC + ':TocCache', ro_cache=ro, rw_cache=rw)
        c.let('n_ro', w.listing(ro))
        c.let('given', tuple(d for d in (ro, rw) if d))
        c.reset_trace()
        c.call((cache, 'fetch'), crc)
        c.ensure('no-exception', 'raised is None')
        if c.get('result') is None:
            c.ensure('stored-table-is-found', 'not (has_a and crc == crc_a) and not (has_b and crc == crc_b)')
        else:
            c.ensure('used-only-under-the-announced-checksum-and-identical',
                     '(has_a and crc == crc_a and flat(result) == flat_a) or (has_b and crc == crc_b and flat(result) == flat_b)')
        c.ensure('only-a-file-named-by-the-announced-checksum-is-opened',
                 'all(any(e[1][0] == d + "/%08X.json" % crc for d in given) for e in sent("open"))')
        c.ensure('fetch-writes-nothing', 'writes() == () and len(calls("os.makedirs")) == 0')
        c.let('n_ro2', w.listing(ro))
        c.ensure('ro-directory-unchanged', RO_UNCHANGED)
        w.close()
    return k


for _l in LAYOUTS:
    _select(_l)


@contract('C11', 'fetch.select.two_files_per_directory', [TC + ':TocCache.__init__', TC + ':TocCache.fetch', TC + ':TocCache._decoder'],
          clause=P_EQ + '; ' + P_ID + ' - four stored tables (A, B in the read-only, C, D in the read-write directory; any checksums, distinct '
          'within a directory), any announced checksum: the table handed out was stored under exactly that checksum, and a stored '
          'table is found',
          bounded='two single-entry tables per directory', thorough_only=True, max_paths=4000)
def select_two(c):
    w = World(c)
    ro, rw = w.mkdir('ro'), w.mkdir('rw')
    c.let('ro', ro), c.let('rw', rw)
    crc = c.int('crc', 0, 2 ** 32 - 1)
    stored = []
    for tag, d in (('a', ro), ('b', ro), ('c', rw), ('d', rw)):
        kind = c.choice('kind_' + tag, ['log', 'param']) if tag in ('a', 'c') else 'log'
        f = fields(c, tag, kind)
        w.put_file(d, c.int('crc_' + tag, 0, 2 ** 32 - 1), [(dict(f)['group'], [(dict(f)['name'], entry(kind, f))])])
        c.let('flat_' + tag, (flat_of(kind, f),))
        stored.append(tag)
    c.require('crc_a != crc_b and crc_c != crc_d')
    cache = c.new(TC + ':TocCache', ro_cache=ro, rw_cache=rw)
    c.let('n_ro', w.listing(ro))
    c.reset_trace()
    c.call((cache, 'fetch'), crc)
    c.ensure('no-exception', 'raised is None')
    if c.get('result') is None:
        c.ensure('stored-table-is-found', ' and '.join('crc != crc_%s' % t for t in stored))
    else:
        c.ensure('used-only-under-the-announced-checksum-and-identical',
                 ' or '.join('(crc == crc_%s and flat(result) == flat_%s)' % (t, t) for t in stored))
    c.ensure('only-a-file-named-by-the-announced-checksum-is-opened',
             'all(e[1][0] == ro + "/%08X.json" % crc or e[1][0] == rw + "/%08X.json" % crc for e in sent("open"))')
    c.ensure('fetch-writes-nothing', 'writes() == () and len(calls("os.makedirs")) == 0')
    c.let('n_ro2', w.listing(ro))
    c.ensure('ro-directory-unchanged', RO_UNCHANGED)
    w.close()


@contract('C11', 'fetch.foreign-file-names', [TC + ':TocCache.__init__', TC + ':TocCache.fetch', TC + ':TocCache._decoder'],
          clause=P_EQ + '; an otherwise unparsable cache file is a miss, never a failed connection - also a *.json in a cache directory whose '
                 'NAME is not a checksum (index.json, README.json: not written by the library): the cache object is still constructed and the '
                 'tables stored under their checksum are still found',
          bounded='one single-entry table in the read-write directory; foreign names index.json / README.json / 12.json / '
                  '"0BADC0DE (copy).json" / toc.cache.json in both directories')
def fetch_foreign_names(c):
    w = World(c)
    ro, rw = w.mkdir('ro'), w.mkdir('rw')
    c.let('ro', ro), c.let('rw', rw)
    name = c.choice('foreign_name', ['index.json', 'README.json', '12.json', '0BADC0DE (copy).json', 'toc.cache.json'])
    w.put_foreign_file(ro, name)
    w.put_foreign_file(rw, name)
    crc = c.int('crc', 0, 2 ** 32 - 1)
    kb = c.choice('kind_b', ['log', 'param'])
    fb = fields(c, 'b', kb)
    w.put_file(rw, c.int('crc_b', 0, 2 ** 32 - 1), [(dict(fb)['group'], [(dict(fb)['name'], entry(kb, fb))])])
    c.let('flat_b', (flat_of(kb, fb),))
    c.call(c.cls(TC + ':TocCache'), ro_cache=ro, rw_cache=rw)
    c.ensure('cache-object-constructed', "raised is None and typename(result) == 'TocCache'")
    if c.get('raised') is not None:
        w.close()
        return
    cache = c.get('result')
    c.reset_trace()
    c.call((cache, 'fetch'), crc)
    c.ensure('no-exception', 'raised is None')
    c.ensure('hit-iff-announced-checksum-is-stored', 'iff(result is not None, crc == crc_b)')
    if c.get('result') is not None:
        c.ensure('identical-table', 'flat(result) == flat_b')
    c.ensure('foreign-file-never-opened', 'all(e[1][0] == rw + "/%08X.json" % crc or e[1][0] == ro + "/%08X.json" % crc for e in sent("open"))')
    w.close()


def _other_version(kind, pairs=False):
    allkeys = KEYS + (('extended',) if kind == 'param' else ())
    opts = {'thorough_only': True} if pairs else {}

    @contract('C11', 'fetch.other_version.' + kind + ('.two_missing' if pairs else ''),
              [TC + ':TocCache.__init__', TC + ':TocCache.fetch', TC + ':TocCache._decoder'],
              clause=P_MISS + ' - a well-formed file of another library version whose entries lack %s of the fields '
              '(or carry one more) is a miss unless every field of the element class is present; no field is ever made up'
              % ('two' if pairs else 'one'),
              bounded='single-entry table; %s' % ('every pair of missing keys' if pairs else 'at most one missing key'), **opts)
    def k(c):
        w = World(c)
        where = c.choice('where', ['ro', 'rw'])
        d = w.mkdir(where)
        crc = c.int('crc', 0, 2 ** 32 - 1)
        f = fields(c, 'e', 'param')            # all seven keys; a log entry with 'extended' is the "one more" case
        if pairs:
            missing = c.choice('missing', [(a, b) for i, a in enumerate(allkeys) for b in allkeys[i + 1:]])
        else:
            missing = (c.choice('missing', [None] + list(allkeys)),)
        c.let('complete', missing == (None,))
        written = [(kk, vv) for kk, vv in f if kk not in missing]
        w.put_file(d, crc, [(dict(f)['group'], [(dict(f)['name'], entry(kind, written))])])
        c.let('expected', (flat_of(kind, [(kk, vv) for kk, vv in f if kk in allkeys]),))
        cache = c.new(TC + ':TocCache', **{where + '_cache': d})
        c.reset_trace()
        c.call((cache, 'fetch'), crc)
        c.ensure('no-exception', 'raised is None')
        if c.get('result') is None:
            c.ensure('miss-only-when-a-field-is-missing', 'not complete')
        else:
            c.ensure('hit-only-when-every-field-is-in-the-file', 'complete')
            c.ensure('identical', 'flat(result) == expected')
        c.ensure('fetch-writes-nothing', 'writes() == () and len(calls("os.makedirs")) == 0')
        w.close()
    return k


for _k in ('log', 'param'):
    _other_version(_k)
    _other_version(_k, pairs=True)


@contract('C11', 'fetch.damaged', [TC + ':TocCache.__init__', TC + ':TocCache.fetch'],
          clause=P_MISS + ' - the file stored under the announced checksum is cut at any byte offset / deleted after the directory '
          'was listed / not JSON / names an unknown element class / its directory has disappeared',
          bounded='single-entry table (D2 covers every text json.dumps produces for a dict)')
def fetch_damaged(c):
    w = World(c)
    where = c.choice('where', ['ro', 'rw'])
    d = w.mkdir(where)
    crc = c.int('crc', 0, 2 ** 32 - 1)
    kind = c.choice('kind', ['log', 'param'])
    f = fields(c, 'e', kind)
    damage = c.choice('damage', ['cut', 'deleted', 'garbage', 'unknown-class', 'dir-gone'])
    ent = entry(kind, f)
    if damage == 'unknown-class':
        ent = [('__class__', 'NoSuchTocElement')] + ent[1:]
    fh = w.put_file(d, crc, [(dict(f)['group'], [(dict(f)['name'], ent)])])
    if damage == 'cut':
        w.cut_file(fh, c.int('cut', 0, 10 ** 6))
    elif damage == 'garbage':
        w.garble_file(fh)
    cache = c.new(TC + ':TocCache', **{where + '_cache': d})
    if damage == 'deleted':
        w.remove_file(fh)
    elif damage == 'dir-gone':
        w.remove_dir(d)
    c.reset_trace()
    c.call((cache, 'fetch'), crc)
    c.ensure('miss-without-exception', 'raised is None and result is None')
    c.ensure('fetch-writes-nothing', 'writes() == () and len(calls("os.makedirs")) == 0')
    w.close()


# ----------------------------------------------------------------------------------------------------------------
# O3  __init__ / insert: what is written, and where
# ----------------------------------------------------------------------------------------------------------------

def table_of(c, kind, n, tag='t', lo=32, hi=126):
    """a table of n entries built by the real Toc.add_element; returns (toc object, field lists)"""
    toc = c.new(TOCM + ':Toc')
    fl = []
    for i in range(n):
        f = fields(c, '%s%d' % (tag, i), kind, lo, hi)
        fl.append(f)
        c.call((toc, 'add_element'), element(c, kind, f))
    c.let(tag + '_toc', toc)
    return toc, fl


def _writes(layout, sizes=(0, 1), **opts):
    @contract('C11', 'insert.writes.' + layout + ('' if sizes == (0, 1) else '.n' + ''.join(str(x) for x in sizes)),
              [TC + ':TocCache.__init__', TC + ':TocCache.insert', TC + ':TocCache._encoder'],
              clause=P_RO + ' - directories: ' + layout.replace('_', ' + ') + '; constructing the cache creates at most the read-write '
              'directory; insert never raises, also when the read-write directory has disappeared',
              bounded='tables of %s entries; at most one pre-existing file in the read-write directory' % ' or '.join(str(x) for x in sizes), **opts)
    def k(c):
        w = World(c)
        ro, rw, rw_exists = make_dirs(c, w, layout)
        crc = c.int('crc', 0, 2 ** 32 - 1)
        if ro and layout not in RO_MISSING_LAYOUTS:
            fa = fields(c, 'a', 'log')
            w.put_file(ro, c.int('crc_a', 0, 2 ** 32 - 1), [(dict(fa)['group'], [(dict(fa)['name'], entry('log', fa))])])
        if rw and rw_exists and c.choice('old_file_in_rw', [False, True]):
            fb = fields(c, 'b', 'log')
            w.put_file(rw, c.int('crc_b', 0, 2 ** 32 - 1), [(dict(fb)['group'], [(dict(fb)['name'], entry('log', fb))])])
        c.let('n_ro', w.listing(ro))
        c.let('rw_exists', rw_exists)
        c.reset_trace()
        cache = c.new(TC + ':TocCache', ro_cache=ro, rw_cache=rw)
        c.let('trace', w.calls_so_far())
        c.ensure('constructor-writes-no-file', 'writes() == ()')
        c.ensure('constructor-creates-at-most-the-rw-directory', 'all(e[1] == (rw,) for e in sent("os.makedirs"))')
        c.let('rw_now', w.listing(rw))
        c.ensure('rw-directory-exists-afterwards', 'rw is None or rw_now is not None')
        n = c.choice('entries', list(sizes))
        toc, fl = table_of(c, c.choice('kind', ['log', 'param']) if n else 'log', n)
        gone = rw is not None and c.choice('rw_disappears', [False, True])
        if gone:
            w.remove_dir(rw)
        c.let('gone', gone)
        c.snapshot('table', 't_toc.toc')
        c.reset_trace()
        c.call((cache, 'insert'), crc, c.get('table'))
        c.ensure('no-exception', 'raised is None')
        c.ensure('only-the-file-of-this-checksum-in-rw-is-written',
                 'writes() == ((rw + "/%08X.json" % crc,) if rw is not None else ())')
        c.ensure('no-other-directory-made', 'all(e[1] == (rw,) for e in sent("os.makedirs"))')
        c.let('n_ro2', w.listing(ro))
        c.ensure('ro-directory-unchanged', RO_UNCHANGED)
        w.close()
    return k


for _l in list(LAYOUTS) + list(RO_MISSING_LAYOUTS):
    _writes(_l)
for _l in ('ro_rw', 'ro_missing_rw_new'):
    _writes(_l, sizes=(2, 3), thorough_only=True)


# ----------------------------------------------------------------------------------------------------------------
# histories: store, (crash), (restart), load
# ----------------------------------------------------------------------------------------------------------------

def _history(kind, n, latin1=False, **opts):
    @contract('C11', 'history.store_load.%s%d%s' % (kind, n, '.latin1' if latin1 else ''),
              [TC + ':TocCache.__init__', TC + ':TocCache.insert', TC + ':TocCache.fetch', TC + ':TocCache._encoder',
               TC + ':TocCache._decoder', TOCM + ':Toc.add_element'],
              clause=P_ID + '; ' + P_MISS + ' - history: first session downloads a table and stores it; the write may be cut short at any '
              'byte or the file deleted; the same or a later session (old directory read-write or read-only) asks for the same '
              'checksum; after a miss the table is stored again and then found',
              bounded='%s table with %d entr%s%s' % (kind, n, 'y' if n == 1 else 'ies', '; group and name over all characters a device '
                                                      'can send (ISO-8859-1 1..255, control characters included)' if latin1 else ''), **opts)
    def k(c):
        w = World(c)
        rw = w.dirpath('rw')                     # does not exist yet: first start of a client
        c.let('rw', rw)
        crc = c.int('crc', 0, 2 ** 32 - 1)
        cache = c.new(TC + ':TocCache', rw_cache=rw)
        toc, fl = table_of(c, kind, n, 't', *((1, 255) if latin1 else (32, 126)))
        c.snapshot('table', 't_toc.toc')
        c.snapshot('stored', 'flat(table)')
        c.let('n', n)
        c.call((cache, 'insert'), crc, c.get('table'))
        c.ensure('stored-without-exception', 'raised is None')
        event = c.choice('event', ['none', 'crash', 'deleted'])
        if event == 'crash':
            w.cut_file(w.file_written_for(rw, crc), c.int('cut', 0, 10 ** 6))
        session = c.choice('session', ['same-object', 'restart', 'restart-old-dir-read-only'])
        c.let('ro', None)
        if session == 'restart':
            cache = c.new(TC + ':TocCache', rw_cache=rw)
        elif session == 'restart-old-dir-read-only':
            c.let('ro', rw)
            rw = w.dirpath('rw2')
            c.let('rw', rw)
            cache = c.new(TC + ':TocCache', ro_cache=c.get('ro'), rw_cache=rw)
        if event == 'deleted':
            w.remove_file(w.file_written_for(c.get('ro') or rw, crc))
        c.let('n_ro', w.listing(c.get('ro')))
        c.reset_trace()
        c.call((cache, 'fetch'), crc)
        c.ensure('no-exception', 'raised is None')
        c.ensure('fetch-writes-nothing', 'writes() == ()')
        if event == 'none':
            c.ensure('stored-table-is-found', 'result is not None')
            if c.get('result') is not None:
                c.ensure('loaded-identical-to-stored', 'flat(result) == stored and len(result) == len(table)')
                c.ensure('loaded-is-a-copy', 'not is_same(result, table)')
        else:
            c.ensure('damaged-or-missing-file-is-a-miss', 'result is None')
            # the fetcher now downloads the table and stores it again
            c.reset_trace()
            c.call((cache, 'insert'), crc, c.get('table'))
            c.ensure('repair-no-exception', 'raised is None')
            c.ensure('repair-writes-only-the-rw-file', 'writes() == (rw + "/%08X.json" % crc,)')
            c.call((cache, 'fetch'), crc)
            c.ensure('repaired-no-exception', 'raised is None')
            c.ensure('repaired-table-is-found', 'result is not None')
            if c.get('result') is not None:
                c.ensure('repaired-identical-to-stored', 'flat(result) == stored')
        c.let('n_ro2', w.listing(c.get('ro')))
        c.ensure('ro-directory-unchanged', RO_UNCHANGED)
        w.close()
    return k


for _k, _n in (('log', 1), ('param', 1), ('log', 2), ('param', 2), ('log', 0)):
    _history(_k, _n)
for _k, _n in (('log', 3), ('param', 3), ('log', 4)):                         # larger tables: thorough tier
    _history(_k, _n, thorough_only=True)
for _k in ('log', 'param'):                                                # D1 sampled on non-ASCII / control characters
    _history(_k, 1, latin1=True, thorough_only=True)


@contract('C11', 'history.other_checksum', [TC + ':TocCache.__init__', TC + ':TocCache.insert', TC + ':TocCache.fetch'],
          clause=P_EQ + ' - history: a table stored by the library itself under one checksum is never returned for any other '
          'announced checksum, in the same or a later session',
          bounded='single-entry log table')
def history_other(c):
    w = World(c)
    rw = w.mkdir('rw')
    c.let('rw', rw)
    crc1 = c.int('crc1', 0, 2 ** 32 - 1)
    crc2 = c.int('crc2', 0, 2 ** 32 - 1)
    c.require('crc1 != crc2')
    cache = c.new(TC + ':TocCache', rw_cache=rw)
    toc, fl = table_of(c, 'log', 1)
    c.snapshot('table', 't_toc.toc')
    c.call((cache, 'insert'), crc1, c.get('table'))
    c.ensure('stored-without-exception', 'raised is None')
    session = c.choice('session', ['same-object', 'restart', 'restart-old-dir-read-only'])
    if session == 'restart':
        cache = c.new(TC + ':TocCache', rw_cache=rw)
    elif session == 'restart-old-dir-read-only':
        cache = c.new(TC + ':TocCache', ro_cache=rw, rw_cache=w.dirpath('rw2'))
    c.reset_trace()
    c.call((cache, 'fetch'), crc2)
    c.ensure('other-checksum-is-a-miss', 'raised is None and result is None')
    c.ensure('nothing-opened', 'len(sent("open")) == 0')
    w.close()


@contract('C11', 'history.reserved_name', [TC + ':TocCache.insert', TC + ':TocCache.fetch', TC + ':TocCache._decoder'],
          clause=P_ID + '; ' + P_MISS + ' - a group or a variable that is itself called "__class__" (the tag the file format uses) must not '
          'produce a wrong table or an exception: the stored table comes back identical or not at all',
          bounded='single-entry table')
def history_reserved(c):
    w = World(c)
    rw = w.mkdir('rw')
    crc = c.int('crc', 0, 2 ** 32 - 1)
    kind = c.choice('kind', ['log', 'param'])
    which = c.choice('reserved', ['group', 'name'])
    f = [(kk, '__class__' if kk == which else vv) for kk, vv in fields(c, 't0', kind)]
    toc = c.new(TOCM + ':Toc')
    c.call((toc, 'add_element'), element(c, kind, f))
    c.let('toc', toc)
    c.snapshot('table', 'toc.toc')
    c.snapshot('stored', 'flat(table)')
    cache = c.new(TC + ':TocCache', rw_cache=rw)
    c.call((cache, 'insert'), crc, c.get('table'))
    c.ensure('stored-without-exception', 'raised is None')
    c.call((cache, 'fetch'), crc)
    c.ensure('no-exception', 'raised is None')
    if c.get('result') is not None:
        c.ensure('loaded-identical-to-stored', 'flat(result) == stored')
    w.close()


# ----------------------------------------------------------------------------------------------------------------
# O2 (second half)  the fetcher uses the cache only under the announced checksum, and stores under it
# ----------------------------------------------------------------------------------------------------------------

def fetcher(c, v2, cache, element_class, port):
    cf = c.ext('cf', returns={'platform.get_protocol_version': 4 if v2 else 3})
    holder = c.new(TOCM + ':Toc')
    c.let('holder', holder)
    c.snapshot('fresh_table', 'holder.toc')
    f = c.new(TOCM + ':TocFetcher', cf, element_class, port, holder, c.ext('finished'), cache)
    c.let('f', f)
    c.call((f, 'start'))
    c.require('raised is None')
    return f


def info_packet(c, v2, port):
    """TOC info reply: cmd, number of items (u16 in V2, u8 in V1), checksum u32, two more bytes"""
    data = c.bytes('info', 9 if v2 else 8)
    if v2:
        c.snapshot('items', 'info[1] + 256 * info[2]')
        c.snapshot('crc', 'unpack("<I", info[3:7])[0]')
    else:
        c.snapshot('items', 'info[1]')
        c.snapshot('crc', 'unpack("<I", info[2:6])[0]')
    return c.new(STK + ':CRTPPacket', port << 4, data)


def _info_reply(v2):
    @contract('C11', 'fetcher.info_reply.v%d' % (2 if v2 else 1), [TOCM + ':TocFetcher._new_packet_cb', TOCM + ':TocFetcher.start',
                                                                   TOCM + ':TocFetcher._toc_fetch_finished'],
              clause=P_EQ + ' - the fetcher asks the cache exactly once, with the checksum decoded from the device\'s info reply; a '
              'non-empty answer replaces the table and ends the fetch without any download; otherwise the table is left alone '
              'and the download starts (or, for zero items, the empty table is stored under the announced checksum)')
    def k(c):
        port = c.choice('port', [5, 2])
        what = c.choice('cache_answer', ['miss', 'empty-table', 'table'])
        answer = {'miss': None, 'empty-table': c.dict([]), 'table': c.dict([('g', c.dict([('n', c.ext('element'))]))])}[what]
        c.let('answer', answer)
        cache = c.ext('cache', returns={'fetch': answer})
        f = fetcher(c, v2, cache, c.ext('element_class'), port)
        pk = info_packet(c, v2, port)
        c.reset_trace()
        c.call((f, '_new_packet_cb'), pk)
        c.ensure('no-exception', 'raised is None')
        c.ensure('cache-asked-once-with-the-announced-checksum', 'sent("cache.fetch") == (("cache.fetch", (crc,), {}),)')
        c.let('USED', 'is_same(holder.toc, answer) and len(sent("finished")) == 1 and len(sent("cf.send_packet")) == 0 and '
              'len(sent("cache.insert")) == 0 and len(sent("element_class")) == 0')
        c.let('NOT_USED', 'is_same(holder.toc, fresh_table) and len(holder.toc) == 0 and '
              '(len(sent("cf.send_packet")) == 1 and len(sent("finished")) == 0 and len(sent("cache.insert")) == 0 if items > 0 else '
              ' sent("cache.insert") == (("cache.insert", (crc, holder.toc), {}),) and len(sent("finished")) == 1 and '
              ' len(sent("cf.send_packet")) == 0)')
        if what == 'table':
            c.ensure('cached-table-used-without-download', c.get('USED'))
        elif what == 'miss':
            c.ensure('miss-table-left-alone-and-downloaded-or-empty-table-stored-under-announced-checksum', c.get('NOT_USED'))
        else:       # an empty table stored under this checksum: using it and downloading the (empty) table again are both right
            c.ensure('empty-cached-table-used-or-downloaded', '(%s) or (%s)' % (c.get('USED'), c.get('NOT_USED')))
        if sum(1 for e in c.get('trace') if e[0] == 'cf.send_packet') == 1:
            c.snapshot('req', 'sent("cf.send_packet")[0][1][0]')
            c.let('want_req', (2, 0, 0) if v2 else (0, 0))
            c.let('port', port)
            c.ensure('download-starts-with-item-0', 'tuple(req.data) == want_req and req.port == port and req.channel == 0')
    return k


_info_reply(True)
_info_reply(False)


def _download(v2):
    @contract('C11', 'fetcher.download_store.v%d' % (2 if v2 else 1), [TOCM + ':TocFetcher._new_packet_cb', TOCM + ':Toc.add_element'],
              clause=P_EQ + ' - history: after a miss the downloaded table is stored exactly once, under the checksum the device '
              'announced in its info reply, and it is the very table the fetcher filled',
              bounded='one-item table (the element decoding itself is C03)')
    def k(c):
        port = c.choice('port', [5, 2])
        cache = c.ext('cache', returns={'fetch': None})
        elem = element(c, 'log', [('ident', 0), ('group', 'g'), ('name', 'n'), ('ctype', 'float'), ('pytype', '<f'), ('access', 0)])
        c.let('elem', elem)
        f = fetcher(c, v2, cache, c.ext('element_class', returns={'()': elem}), port)
        pk = info_packet(c, v2, port)
        c.require('items == 1')
        c.call((f, '_new_packet_cb'), pk)
        c.require('raised is None')
        item = c.bytes('item', 8)
        c.snapshot('ident', '(item[1] + 256 * item[2])' if v2 else 'item[1]')
        c.reset_trace()
        c.call((f, '_new_packet_cb'), c.new(STK + ':CRTPPacket', port << 4, item))
        c.ensure('no-exception', 'raised is None')
        if len(c.get('trace')) == 0:
            c.ensure('only-an-unrequested-item-is-ignored', 'ident != 0 and len(holder.toc) == 0')
        else:
            c.ensure('requested-item', 'ident == 0')
            c.ensure('stored-once-under-the-announced-checksum',
                     'sent("cache.insert") == (("cache.insert", (crc, holder.toc), {}),) and len(sent("finished")) == 1')
            c.ensure('stored-table-is-the-downloaded-one',
                     'is_same(sent("cache.insert")[0][1][1], holder.toc) and holder.toc == {"g": {"n": elem}}')
        c.ensure('cache-not-asked-again', 'len(sent("cache.fetch")) == 0')
    return k


_download(True)
_download(False)


# ----------------------------------------------------------------------------------------------------------------
# quantifier "all checksum values including collisions between log and parameter tables"
# ----------------------------------------------------------------------------------------------------------------

# FINDING (unchanged tree, replays natively): one TocCache serves both fetchers and names files by checksum only, so when the
# log and the parameter table have the same checksum the second fetcher loads the FIRST fetcher's table (elements of
# the other class).  The two contracts below state the clause and FAIL on the pinned tree.  Until the maintainer of
# this directory has decided between a fix: commit and a known_findings.json entry
#   {"property": "C11", "contract": "collision.log_then_param" | "collision.param_then_log",
#    "obligation": "table-of-the-other-kind-is-not-used", "what": "..."}
# they are run by `./vcheck C11 thorough` only (there they report the VIOLATION with its replay); delete
# PENDING_FINDING from the decorator to run them in the quick tier as well.  The ensure stays class P.
PENDING_FINDING = {}      # recorded in /verif/known_findings.json; runs in both tiers


def _collision(first, second):
    @contract('C11', 'collision.%s_then_%s' % (first, second),
              [TC + ':TocCache.insert', TC + ':TocCache.fetch', TOCM + ':TocFetcher._new_packet_cb'],
              clause='never a wrong table, for all checksum values including collisions between log and parameter tables - history: '
              'the %s table was downloaded and stored under a checksum; the device announces the same checksum for its %s table; '
              'the %s fetcher must end up with %s entries only (or download the table)' % (first, second, second, second),
              bounded='single-entry stored table; V2 info reply', **PENDING_FINDING)
    def k(c):
        w = World(c)
        rw = w.mkdir('rw')
        port = {'log': 5, 'param': 2}[second]
        cache = c.new(TC + ':TocCache', rw_cache=rw)
        f = fetcher(c, True, cache, c.cls(CLS[second]), port)
        pk = info_packet(c, True, port)           # defines crc, items
        c.require('items > 0')
        toc, fl = table_of(c, first, 1)
        c.snapshot('table', 't_toc.toc')
        c.call((cache, 'insert'), c.get('crc'), c.get('table'))
        c.require('raised is None')
        c.reset_trace()
        c.call((f, '_new_packet_cb'), pk)
        c.let('want', CLSNAME[second])
        c.ensure('no-exception', 'raised is None')
        c.ensure('table-of-the-other-kind-is-not-used',
                 'all(typename(e) == want for grp in holder.toc.values() for e in grp.values()) and '
                 '(len(holder.toc) > 0 or len(sent("cf.send_packet")) == 1)')
        w.close()
    return k


_collision('log', 'param')
_collision('param', 'log')


# ----------------------------------------------------------------------------------------------------------------
# additions of the extension round
# ----------------------------------------------------------------------------------------------------------------

CFM = 'cflib.crazyflie'
SWM = 'cflib.crazyflie.swarm'


@contract('C11', 'toc.clear', [TOCM + ':Toc.clear', TOCM + ':Toc.add_element'],
          clause='never a partial or wrong table - Toc.clear leaves an empty table behind; entries added afterwards make up the whole new '
          'table (nothing of the old one comes back)',
          bounded='one entry before, one entry after')
def toc_clear(c):
    World(c).close()                               # only the spec helpers flat() / writes()
    kind = c.choice('kind', ['log', 'param'])
    toc, fl = table_of(c, kind, 1)
    c.call((toc, 'clear'))
    c.ensure('cleared', 'raised is None and len(t_toc.toc) == 0 and flat(t_toc.toc) == ()')
    f2 = fields(c, 'u', kind)
    c.call((toc, 'add_element'), element(c, kind, f2))
    c.let('want', (flat_of(kind, f2),))
    c.ensure('only-the-new-entry', 'raised is None and flat(t_toc.toc) == want')


# ---------------------------------------------------------------- the fetcher stores a table only when it is complete

def _download_n(v2, n, thorough_only=False):
    opts = {'thorough_only': True} if thorough_only else {}

    @contract('C11', 'fetcher.download_store.v%d.n%d' % (2 if v2 else 1, n), [TOCM + ':TocFetcher._new_packet_cb', TOCM + ':Toc.add_element'],
              clause=P_EQ + '; never a partial table - history: after a miss nothing is stored under the announced checksum while the '
              'download is still going on (a connection that dies half way leaves no partial table in the cache); the complete table is '
              'stored exactly once, under the checksum of the info reply',
              bounded='%d-item table (the element decoding itself is C03); the last item reply is arbitrary, the earlier ones carry the '
              'requested index' % n, **opts)
    def k(c):
        port = c.choice('port', [5, 2])
        cache = c.ext('cache', returns={'fetch': None})
        elems = [element(c, 'log', [('ident', i), ('group', 'g'), ('name', 'n%d' % i), ('ctype', 'float'), ('pytype', '<f'), ('access', 0)])
                 for i in range(n)]
        made = []

        def make(_i, args, _k):
            made.append(1)
            return elems[len(made) - 1]
        f = fetcher(c, v2, cache, c.ext('element_class', returns={'()': make}), port)
        pk = info_packet(c, v2, port)
        c.let('n', n)
        c.require('items == n')
        c.call((f, '_new_packet_cb'), pk)
        c.require('raised is None')
        c.reset_trace()
        for i in range(n - 1):
            item = c.bytes('item%d' % i, 8)
            c.require(('item%d[1] + 256 * item%d[2] == %d' if v2 else 'item%d[1] + 0 * item%d[2] == %d') % (i, i, i))
            c.call((f, '_new_packet_cb'), c.new(STK + ':CRTPPacket', port << 4, item))
            c.ensure('no-exception-%d' % i, 'raised is None')
            c.ensure('nothing-stored-before-the-table-is-complete-%d' % i,
                     'len(sent("cache.insert")) == 0 and len(sent("finished")) == 0 and len(sent("cf.send_packet")) == %d' % (i + 1))
        item = c.bytes('item', 8)
        c.snapshot('ident', '(item[1] + 256 * item[2])' if v2 else 'item[1]')
        c.snapshot('before', 'len(trace)')
        c.call((f, '_new_packet_cb'), c.new(STK + ':CRTPPacket', port << 4, item))
        c.ensure('no-exception', 'raised is None')
        c.let('elems', tuple(elems))
        if len(c.get('trace')) == c.get('before'):
            c.ensure('only-an-unrequested-item-is-ignored', 'ident != n - 1 and sum(len(g) for g in holder.toc.values()) == n - 1')
        else:
            c.ensure('requested-item', 'ident == n - 1')
            c.ensure('stored-once-under-the-announced-checksum',
                     'sent("cache.insert") == (("cache.insert", (crc, holder.toc), {}),) and len(sent("finished")) == 1')
            c.ensure('stored-table-is-the-complete-downloaded-one',
                     'is_same(sent("cache.insert")[0][1][1], holder.toc) and len(holder.toc) == 1 and '
                     'tuple(holder.toc["g"].items()) == tuple(("n%d" % i, elems[i]) for i in range(n))')
        c.ensure('cache-not-asked-again', 'len(sent("cache.fetch")) == 0')
    return k


for _v2 in (True, False):
    _download_n(_v2, 2)
    _download_n(_v2, 3)
    _download_n(_v2, 6, thorough_only=True)


def _store_step(v2):
    @contract('C11', 'fetcher.store_only_when_complete.v%d' % (2 if v2 else 1), [TOCM + ':TocFetcher._new_packet_cb', TOCM + ':Toc.add_element'],
              clause=P_EQ + '; never a partial table - one step of the download, for ANY table size N and ANY outstanding index r < N: the reply '
              'for entry r stores nothing unless r is the last entry; then the table is stored once, under the checksum of the info reply '
              '(with fetcher.download_store.* as base case this is the induction step over the download)')
    def k(c):
        port = c.choice('port', [5, 2])
        cache = c.ext('cache', returns={'fetch': None})
        elem = element(c, 'log', [('ident', 0), ('group', 'g'), ('name', 'n'), ('ctype', 'float'), ('pytype', '<f'), ('access', 0)])
        c.let('elem', elem)
        f = fetcher(c, v2, cache, c.ext('element_class', returns={'()': elem}), port)
        pk = info_packet(c, v2, port)
        c.require('items > 0')
        c.call((f, '_new_packet_cb'), pk)
        c.require('raised is None')
        # the r earlier steps: entry r is outstanding (the only state the steps change besides the table itself)
        r = c.int('r', 0, 65534 if v2 else 254)
        c.require('r < items')
        c.set(f, 'requested_index', r)
        item = c.bytes('item', 8)
        c.require('(item[1] + 256 * item[2]) == r' if v2 else 'item[1] == r')
        c.reset_trace()
        c.call((f, '_new_packet_cb'), c.new(STK + ':CRTPPacket', port << 4, item))
        c.ensure('no-exception', 'raised is None')
        c.ensure('stored-iff-this-was-the-last-entry', 'iff(len(sent("cache.insert")) > 0, r == items - 1)')
        c.ensure('stored-at-most-once-under-the-announced-checksum-and-it-is-the-fetchers-table',
                 'all(e[1][0] == crc and is_same(e[1][1], holder.toc) for e in sent("cache.insert")) and len(sent("cache.insert")) <= 1')
        c.ensure('finished-iff-stored', 'len(sent("finished")) == len(sent("cache.insert"))')
        c.ensure('next-entry-requested-otherwise', 'len(sent("cf.send_packet")) == (0 if r == items - 1 else 1)')
        c.ensure('cache-not-asked-again', 'len(sent("cache.fetch")) == 0')
    return k


_store_step(True)
_store_step(False)


# ---------------------------------------------------------------- the directories given to Crazyflie / CachedCfFactory reach the cache unswapped

def _cf_dirs(layout, via):
    @contract('C11', 'crazyflie.cache_directories.%s.%s' % (via, layout),
              [CFM + ':Crazyflie.__init__', CFM + ':Crazyflie._platform_info_fetched', CFM + ':Crazyflie._mems_updated_cb',
               TC + ':TocCache.__init__', TC + ':TocCache.fetch', TC + ':TocCache.insert'] +
              ([SWM + ':CachedCfFactory.__init__', SWM + ':CachedCfFactory.construct'] if via == 'factory' else []),
              clause=P_RO + '; for all combinations of read-only and read-write cache directories - the directories given to %s reach '
              'the table cache in their roles: tables lying in either directory are found, a downloaded table is written to the read-write '
              'directory only, the read-only directory is left as it was - checked on the cache object(s) the connection sequence hands to '
              'the log and to the parameter fetcher; directories: %s%s' % ('Crazyflie(ro_cache=, rw_cache=)' if via == 'crazyflie' else
                                                              'CachedCfFactory(ro_cache=, rw_cache=).construct(uri)', layout.replace('_', ' + '),
                                                              ' (no directory given at all: the defaults - nothing is read, created or written)'
                                                              if layout == 'none' else ''),
              bounded='one single-entry table per directory, stored under two fixed checksums')
    def k(c):
        w = World(c)
        c.virtual_time()
        ro, rw, rw_exists = make_dirs(c, w, layout)
        crc = c.int('crc', 0, 2 ** 32 - 1)
        has_a, has_b = ro is not None and layout not in RO_MISSING_LAYOUTS, rw is not None and rw_exists
        # which checksum selects which file is fetch.select.*; here the two stored checksums are fixed
        c.let('crc_a', 0x0BADC0DE), c.let('crc_b', 0x00C0FFEE)
        if has_a:
            fa = fields(c, 'a', 'log')
            w.put_file(ro, c.get('crc_a'), [(dict(fa)['group'], [(dict(fa)['name'], entry('log', fa))])])
            c.let('flat_a', (flat_of('log', fa),))
        if has_b:
            fb = fields(c, 'b', 'param')
            w.put_file(rw, c.get('crc_b'), [(dict(fb)['group'], [(dict(fb)['name'], entry('param', fb))])])
            c.let('flat_b', (flat_of('param', fb),))
        c.let('n_ro', w.listing(ro))
        c.reset_trace()
        given = {kk: vv for kk, vv in (('ro_cache', ro), ('rw_cache', rw)) if vv is not None}     # 'none': the defaults
        if via == 'crazyflie':
            c.call(c.cls(CFM + ':Crazyflie'), **given)
            c.ensure('crazyflie-object-constructed', 'raised is None')
            cf = c.get('result')
        else:
            factory = c.new(SWM + ':CachedCfFactory', **given)
            c.call((factory, 'construct'), 'radio://0/80/2M')
            c.ensure('crazyflie-object-constructed', 'raised is None')
            cf = c.getfield(c.get('result'), 'cf') if c.get('raised') is None else None
        if c.get('raised') is not None:
            w.close()
            return
        c.let('trace', w.calls_so_far())
        c.ensure('construction-writes-no-file-and-creates-at-most-the-rw-directory',
                 'writes() == () and all(e[1] == (rw,) and rw is not None for e in sent("os.makedirs"))')
        # the connection sequence: platform information -> log table -> memories -> parameter table; what it hands to the two
        # fetchers is the cache whose directories are checked below
        c.set(cf, 'log', c.ext('log'))
        c.set(cf, 'param', c.ext('param'))
        c.reset_trace()
        c.call((cf, '_platform_info_fetched'))
        c.ensure('log-table-requested-once', 'raised is None and len(sent("log.refresh_toc")) == 1')
        c.call((cf, '_mems_updated_cb'))
        c.ensure('parameter-table-requested-once', 'raised is None and len(sent("param.refresh_toc")) == 1')
        c.snapshot('handed', 'tuple(tuple(x for x in tuple(e[1]) + tuple(e[2].values()) if typename(x) == "TocCache") '
                   'for e in sent("log.refresh_toc") + sent("param.refresh_toc"))')
        c.ensure('each-fetcher-gets-a-table-cache', 'len(handed) == 2 and all(len(h) == 1 for h in handed)')
        caches = []
        for h in c.get('handed'):
            for x in h:
                if not any(x is y for y in caches):
                    caches.append(x)
        toc, fl = table_of(c, 'log', 1)
        c.snapshot('table', 't_toc.toc')
        for i, cache in enumerate(caches):
            if has_a:
                c.call((cache, 'fetch'), c.get('crc_a'))
                c.ensure('table-in-the-read-only-directory-is-found-%d' % i, 'raised is None and result is not None and flat(result) == flat_a')
            if has_b:
                c.call((cache, 'fetch'), c.get('crc_b'))
                c.ensure('table-in-the-read-write-directory-is-found-%d' % i, 'raised is None and result is not None and flat(result) == flat_b')
            c.reset_trace()
            c.call((cache, 'insert'), crc, c.get('table'))
            c.ensure('downloaded-table-goes-to-the-read-write-directory-only-%d' % i,
                     'raised is None and writes() == ((rw + "/%08X.json" % crc,) if rw is not None else ())')
        c.let('n_ro2', w.listing(ro))
        c.ensure('ro-directory-unchanged', RO_UNCHANGED)
        w.close()
    return k


for _l in ('ro_rw', 'ro_rw_new', 'ro', 'rw', 'none', 'ro_missing_rw'):
    _cf_dirs(_l, 'crazyflie')
for _l in ('ro_rw', 'ro', 'rw_new', 'none'):
    _cf_dirs(_l, 'factory')


# ---------------------------------------------------------------- two connections, end to end: real Log / Param, real fetcher, real cache, real elements

class Radio:
    """The Crazyflie object as the log / parameter subsystems see it, with the device at the other end: transmissions are
    queued, run() lets the device answer them one by one, each answer is delivered to every callback registered for its
    port at that moment, in registration order (what the dispatcher does, C07)."""

    def __init__(self, c, v2):
        self.c, self.v2 = c, v2
        self.cbs, self.outbox = [], []
        self.n = 0
        self.item_requests = 0
        self.table = None               # (kind, crc expression, [(type byte, group bytes name, name bytes name), ...])
        self.cf = c.ext('cf', attrs={'link': c.ext('link')},
                        returns={'platform.get_protocol_version': 4 if v2 else 3, 'add_port_callback': self._add,
                                 'remove_port_callback': self._remove, 'send_packet': self._send})

    @staticmethod
    def _same(a, b):
        if hasattr(a, 'self_obj'):
            return a.self_obj is b.self_obj and a.func is b.func
        return a == b

    def _send(self, _i, args, _kw):
        self.outbox.append(args[0])

    def _add(self, _i, args, _kw):
        self.cbs.append((args[0], args[1]))

    def _remove(self, _i, args, _kw):
        for it in list(self.cbs):
            if it[0] == args[0] and self._same(it[1], args[1]):
                self.cbs.remove(it)
                return

    def deliver(self, port, channel, data_expr):
        c = self.c
        self.n += 1
        c.snapshot('rx%d' % self.n, data_expr)
        pk = c.new(STK + ':CRTPPacket', (port << 4) | channel, c.get('rx%d' % self.n))
        for p, cb in list(self.cbs):
            if p == port:
                c.call(cb, pk)
                c.ensure('delivery-%d-no-exception' % self.n, 'raised is None')

    def answer(self, pk):
        """the device's answer to one request: (port, channel, data expression) or None"""
        c = self.c
        c.let('rq', pk)
        port, chan, cmd = c.concretize('rq.port'), c.concretize('rq.channel'), c.concretize('rq.data[0]')
        kind, crc, entries = self.table
        if port == 5 and chan == 1 and cmd == 5:
            return 5, 1, 'bytes([5, 0, 0])'
        if port != {'log': 5, 'param': 2}[kind] or chan != 0:
            return None
        if cmd == 3:
            return port, 0, "pack('<BHI', 3, %d, %s)" % (len(entries), crc)
        if cmd == 1:
            return port, 0, "pack('<BBI', 1, %d, %s)" % (len(entries), crc)
        if cmd in (2, 0):
            self.item_requests += 1
            i = c.concretize('rq.data[1] + 256 * rq.data[2]' if cmd == 2 else 'rq.data[1]')
            head = "pack('<BH', 2, %d)" % i if cmd == 2 else "pack('<BB', 0, %d)" % i
            if not 0 <= i < len(entries):
                return port, 0, head
            t, g, n = entries[i]
            return port, 0, head + ' + bytes([%d]) + %s + bytes([0]) + %s + bytes([0])' % (t, g, n)
        return None

    def run(self, limit=16):
        while self.outbox and limit > 0:
            limit -= 1
            reply = self.answer(self.outbox.pop(0))
            if reply is not None:
                self.deliver(*reply)


LOG_T = ((7, 'float', '<f'), (2, 'uint16_t', '<H'), (4, 'int8_t', '<b'))


def device_table(c, kind, tag, n, crc, symbolic_names=True):
    """a device table of n entries -> (Radio.table value, expected flat(table) of the library)"""
    entries, flat = [], []
    for i in range(n):
        g, nm = '%s_g%d' % (tag, i), '%s_n%d' % (tag, i)
        if symbolic_names:
            c.bytes(g, 2), c.bytes(nm, 2)
            c.require('all(b != 0 and b != 46 for b in %s) and all(b != 0 and b != 46 for b in %s)' % (g, nm))
        else:
            c.let(g, ('%sg' % tag[-1:]).encode()), c.let(nm, ('q%d' % i).encode())
        for j in range(i):                                  # (group, name) pairs of a device table are unique
            c.require('not (%s == %s_g%d and %s == %s_n%d)' % (g, tag, j, nm, tag, j))
        G = c.snapshot(g.upper(), "%s.decode('ISO-8859-1')" % g)
        N = c.snapshot(nm.upper(), "%s.decode('ISO-8859-1')" % nm)
        if kind == 'log':
            t, ct, pt = LOG_T[i % len(LOG_T)]
            flat.append((G, N, 'LogTocElement', i, G, N, ct, pt, 0, None))
        else:
            ext = c.choice('%s_x%d' % (tag, i), [False, True]) if i == 0 else False
            ro = i % 2 == 1
            t = 0x08 | (0x10 if ext else 0) | (0x40 if ro else 0)
            flat.append((G, N, 'ParamTocElement', i, G, N, 'uint8_t', '<B', 1 if ro else 0, ext))
        entries.append((t, g, nm))
    return (kind, crc, entries), tuple(flat)


def _session(kind, n, thorough_only=False):
    opts = {'thorough_only': True} if thorough_only else {}
    sub_f = ([LOG + ':Log.refresh_toc', LOG + ':Log._new_packet_cb', LOG + ':LogTocElement.__init__'] if kind == 'log' else
             [PAR + ':Param.refresh_toc', PAR + ':Param._disconnected', PAR + ':Param._connection_requested', PAR + ':ParamTocElement.__init__',
              PAR + ':_ExtendedTypeFetcher.request_extended_types'])

    @contract('C11', 'session.%s.n%d' % (kind, n),
              sub_f + [TOCM + ':TocFetcher.start', TOCM + ':TocFetcher._new_packet_cb', TOCM + ':Toc.add_element', TC + ':TocCache.__init__',
                       TC + ':TocCache.fetch', TC + ':TocCache.insert', TC + ':TocCache._encoder', TC + ':TocCache._decoder'],
              clause=P_EQ + '; ' + P_ID + ' - two connections, end to end (real %s subsystem, fetcher, cache and element classes): the first '
              'connection downloads the device table and stores it; a second connection to a device announcing the same checksum (same '
              'objects after a reconnect, or a new process) takes the table from the cache without requesting a single entry and it is '
              'entry-for-entry the downloaded one%s; a second connection to a device announcing ANOTHER checksum downloads that device\'s '
              'table - nothing of the first table is used, kept or stored under the new checksum, and the first table stays available '
              'under its own checksum' % ('log' if kind == 'log' else 'parameter',
                                          ' (the persistence query goes to exactly the entries whose extended marker the device had set)'
                                          if kind == 'param' else ''),
              bounded='first table of %d entr%s (two-byte group and name, any bytes; fixed types), second table of one entry; both protocol '
              'generations' % (n, 'y' if n == 1 else 'ies'), max_paths=600, **opts)
    def k(c):
        w = World(c)
        c.virtual_time()
        # the same entries, in any order (a table is a mapping; entries of one group are kept together)
        c.snapshot('same_entries', 'lambda a, b: len(a) == len(b) and all(any(x == y for y in b) for x in a)')
        rw = w.dirpath('rw')
        c.let('rw', rw), c.let('ro', None)
        v2 = c.choice('v2', [True, False])
        second = c.choice('second', ['same-objects', 'new-process', 'other-device'])
        # which checksum selects which file is decided for all checksums in fetch.select.* / fetcher.info_reply.*; here: boundary values
        c.let('crc', c.choice('crc_first', [0x0BADC0DE, 0, 0xFFFFFFFF]))
        radio = Radio(c, v2)
        radio.table, want1 = device_table(c, kind, 'd', n, 'crc')
        c.let('want1', want1)
        cache = c.new(TC + ':TocCache', rw_cache=rw)
        sub = c.new((LOG + ':Log') if kind == 'log' else (PAR + ':Param'), radio.cf)
        c.let('sub', sub), c.let('n', n)

        def connect(tag):
            done = c.ext('toc_done_' + tag)
            radio.item_requests = 0
            c.reset_trace()
            c.call((sub, 'refresh_toc'), done, cache)
            c.ensure('refresh-no-exception-' + tag, 'raised is None')
            radio.run()
            c.snapshot('trace', 'trace')
            c.let('item_requests', radio.item_requests)

        # ---- first connection: nothing cached
        connect('1')
        c.ensure('first-connection-downloads-every-entry', 'item_requests == n')
        c.ensure('first-table-is-the-device-table', 'sub.toc is not None and same_entries(flat(sub.toc.toc), want1)')
        c.snapshot('first', 'flat(sub.toc.toc) if sub.toc is not None else None')
        c.ensure('first-table-stored-under-the-announced-checksum', 'writes() == (rw + "/%08X.json" % crc,)')
        c.ensure('first-completion-signalled', 'len(sent("toc_done_1")) + len(sent("thread:_ExtendedTypeFetcher.start")) == 1')
        # ---- second connection
        if second == 'new-process':
            radio2 = Radio(c, v2)
            radio2.table = radio.table
            radio = radio2
            cache = c.new(TC + ':TocCache', rw_cache=rw)
            sub = c.new((LOG + ':Log') if kind == 'log' else (PAR + ':Param'), radio.cf)
            c.let('sub', sub)
        elif kind == 'param':
            c.call((sub, '_disconnected'), 'radio://0/80/2M')
            c.ensure('disconnect-no-exception', 'raised is None')
            c.call((sub, '_connection_requested'), 'radio://0/80/2M')
            c.ensure('connection-request-no-exception', 'raised is None')
        if second == 'other-device':
            c.let('crc2', c.choice('crc_second', [c.get('crc') ^ 1, c.get('crc') ^ 0x80000000, 0x00C0FFEE]))
            radio.table, want2 = device_table(c, kind, 'e', 1, 'crc2', symbolic_names=False)
            c.let('want2', want2)
            connect('2')
            c.ensure('other-device-table-is-downloaded', 'item_requests == 1')
            c.ensure('table-is-the-second-device-table-only', 'sub.toc is not None and flat(sub.toc.toc) == want2')
            c.ensure('stored-under-the-second-checksum-only', 'writes() == (rw + "/%08X.json" % crc2,)')
            c.call((cache, 'fetch'), c.get('crc2'))
            c.ensure('second-checksum-yields-the-second-table', 'raised is None and result is not None and flat(result) == want2')
            c.call((cache, 'fetch'), c.get('crc'))
            c.ensure('first-checksum-still-yields-the-first-table', 'raised is None and result is not None and flat(result) == first')
        else:
            connect('2')
            c.ensure('cached-table-used-no-entry-requested', 'item_requests == 0')
            c.ensure('loaded-table-identical-to-the-downloaded-one', 'sub.toc is not None and flat(sub.toc.toc) == first')
            c.ensure('loaded-table-is-the-device-table', 'sub.toc is not None and same_entries(flat(sub.toc.toc), want1)')
            c.ensure('nothing-written', 'writes() == ()')
            if kind == 'log':
                c.ensure('completion-signalled-once', 'len(sent("toc_done_2")) == 1')
            else:
                ext = tuple(i for i, e in enumerate(want1) if e[9])
                c.let('EXT', ext)
                if not ext:
                    c.ensure('completion-signalled-once', 'len(sent("toc_done_2")) == 1 and len(sent("thread:_ExtendedTypeFetcher.start")) == 0')
                else:
                    c.ensure('persistence-query-started', 'len(sent("toc_done_2")) == 0 and len(sent("thread:_ExtendedTypeFetcher.start")) == 1')
                    if sum(1 for e in c.get('trace') if e[0] == 'thread:_ExtendedTypeFetcher.start') == 1:
                        c.snapshot('xf', 'sent("thread:_ExtendedTypeFetcher.start")[0][1][0]')
                        c.ensure('persistence-query-for-exactly-the-entries-marked-extended',
                                 "tuple(bytes(p.data) for p in xf.request_queue.queue) == tuple(pack('<BH', 2, j) for j in EXT)")
        w.close()
    return k


for _k in ('log', 'param'):
    _session(_k, 1)
    _session(_k, 2)
    _session(_k, 3, thorough_only=True)


# ---------------------------------------------------------------- I/O error in the middle of the write; a reader during the write

def _write_error(kind):
    @contract('C11', 'history.write_error.' + kind,
              [TC + ':TocCache.__init__', TC + ':TocCache.insert', TC + ':TocCache.fetch', TC + ':TocCache._encoder', TC + ':TocCache._decoder'],
              clause=P_MISS + ' - history: the write of the cache file fails half way (disk full; the error is reported by write() or only by '
              'close()), with or without an older complete file of that checksum in the directory: storing never raises (the connection '
              'goes on), what is left on the disk is a miss for this and for later sessions, never a partial table, and a later complete '
              'store repairs it',
              bounded='single-entry %s table' % kind)
    def k(c):
        w = World(c)
        rw = w.mkdir('rw')
        c.let('rw', rw), c.let('ro', None)
        crc = c.int('crc', 0, 2 ** 32 - 1)
        if c.choice('older_file', [False, True]):
            fo = fields(c, 'o', kind)
            w.put_file(rw, crc, [(dict(fo)['group'], [(dict(fo)['name'], entry(kind, fo))])])
        cache = c.new(TC + ':TocCache', rw_cache=rw)
        toc, fl = table_of(c, kind, 1)
        c.snapshot('table', 't_toc.toc')
        c.snapshot('stored', 'flat(table)')
        w.write_fails(c.choice('reported_by', ['write', 'close']), c.int('cut', 0, 10 ** 6))
        c.reset_trace()
        c.call((cache, 'insert'), crc, c.get('table'))
        c.ensure('failed-store-does-not-raise', 'raised is None')
        c.ensure('only-the-file-of-this-checksum-was-opened-for-writing', 'writes() == (rw + "/%08X.json" % crc,)')
        if c.choice('session', ['same-object', 'restart']) == 'restart':
            cache = c.new(TC + ':TocCache', rw_cache=rw)
        c.reset_trace()
        c.call((cache, 'fetch'), crc)
        c.ensure('half-written-file-is-a-miss', 'raised is None and result is None')
        c.ensure('fetch-writes-nothing', 'writes() == ()')
        c.call((cache, 'insert'), crc, c.get('table'))
        c.ensure('repair-no-exception', 'raised is None')
        c.call((cache, 'fetch'), crc)
        c.ensure('repaired-table-is-found-and-identical', 'raised is None and result is not None and flat(result) == stored')
        w.close()
    return k


for _k in ('log', 'param'):
    _write_error(_k)


@contract('C11', 'swarm.shared_directory',
          [TC + ':TocCache.__init__', TC + ':TocCache.insert', TC + ':TocCache.fetch', TC + ':TocCache._encoder', TC + ':TocCache._decoder'],
          clause=P_MISS + ' - two members of a swarm (each Crazyflie has its own TocCache object, all on the same read-write directory) connect '
          'at the same time: member B looks its table up while member A is in the middle of writing the file of that checksum (explicit '
          'schedule: B runs when a strict prefix of the text is on the disk; B was created before A opened the file or while A writes): B '
          'gets a miss, never a partial table and no exception; once A is done B finds the complete table or still misses, downloads and '
          'stores the table itself, and then both find it',
          bounded='single-entry table; one interruption point inside the write (the file holds a strict prefix of the text, any length)')
def swarm_shared(c):
    w = World(c)
    rw = w.mkdir('rw')
    c.let('rw', rw), c.let('ro', None)
    crc = c.int('crc', 0, 2 ** 32 - 1)
    kind = c.choice('kind', ['log', 'param'])
    b_made = c.choice('b_created', ['before-a-opens-the-file', 'while-a-writes'])
    a = c.new(TC + ':TocCache', rw_cache=rw)
    st = {'b': c.new(TC + ':TocCache', rw_cache=rw) if b_made == 'before-a-opens-the-file' else None}
    toc, fl = table_of(c, kind, 1)
    c.snapshot('table', 't_toc.toc')
    c.snapshot('stored', 'flat(table)')

    def b_runs():
        if st['b'] is None:
            st['b'] = c.invoke(c.cls(TC + ':TocCache'), rw_cache=rw)
        st['exc'] = c.invoke_catch((st['b'], 'fetch'), crc)
        st['res'] = c.invoke((st['b'], 'fetch'), crc) if st['exc'] is None else None
    w.during_write(b_runs, c.int('cut', 0, 10 ** 6))
    c.call((a, 'insert'), crc, c.get('table'))
    c.ensure('a-stores-without-exception', 'raised is None')
    c.let('b_ran', 'exc' in st)
    c.ensure('schedule-was-run', 'b_ran')
    c.let('during_exc', st.get('exc')), c.let('during_result', st.get('res'))
    c.ensure('lookup-during-the-write-is-a-miss', 'during_exc is None and during_result is None')
    b = st['b']
    if b is not None:
        c.call((b, 'fetch'), crc)
        c.ensure('afterwards-complete-table-or-miss', 'raised is None and (result is None or flat(result) == stored)')
        if c.get('result') is None:
            c.call((b, 'insert'), crc, c.get('table'))          # B has downloaded the same table
            c.ensure('b-stores-without-exception', 'raised is None')
            c.call((b, 'fetch'), crc)
            c.ensure('b-finds-its-table', 'raised is None and result is not None and flat(result) == stored')
    c.call((a, 'fetch'), crc)
    c.ensure('a-finds-the-table', 'raised is None and result is not None and flat(result) == stored')
    w.close()


# ---------------------------------------------------------------- files named like a cache file whose content the encoder did not write

IS_TABLE = ('lambda t: typename(t) == "dict" and all(typename(g) == "dict" and '
            'all(typename(e) in ("LogTocElement", "ParamTocElement") for e in g.values()) for g in t.values())')


def _foreign_docs(f):
    ent = dict(f)
    tagged = dict([('__class__', 'LogTocElement')] + list(f))
    return {
        'empty': [('empty-list', []), ('null', None), ('zero', 0), ('empty-string', ''), ('false', False), ('empty-object', {})],
        'not_a_table': [('list', [1]), ('number', 42), ('string', 'toc'), ('true', True),
                        ('group-is-a-number', {'g': 5}), ('group-is-a-list', {'g': [1]}), ('entry-is-a-number', {'g': {'n': 5}}),
                        ('entry-without-class-tag', {'g': {'n': ent}}),
                        ('element-at-top-level', tagged), ('element-at-group-level', {'g': tagged}),
                        ('list-of-tables', [{'g': {'n': tagged}}])],
    }


def _foreign_content(which, **opts):
    @contract('C11', 'fetch.foreign_content.' + which, [TC + ':TocCache.__init__', TC + ':TocCache.fetch', TC + ':TocCache._decoder'],
              clause=P_MISS + ' - a file named like a cache file that is well-formed JSON but not a table (a table: two levels of objects '
              'whose leaves carry the class tag): ' +
              ('an empty document (empty list / object / string, null, 0, false) is a miss: fetch yields nothing the fetcher would use'
               if which == 'empty' else
               'a list, a number, a string, a table whose groups or entries are not objects, entries without the class tag, an element '
               'where a table or a group should be - fetch yields a table of elements or a miss, never something else'),
              bounded='the %d document shapes listed in _foreign_docs' % len(_foreign_docs([])[which]), **opts)
    def k(c):
        w = World(c)
        c.snapshot('is_table', IS_TABLE)
        where = c.choice('where', ['ro', 'rw'])
        d = w.mkdir(where)
        crc = c.int('crc', 0, 2 ** 32 - 1)
        f = fields(c, 'e', 'log')
        docs = _foreign_docs(f)[which]
        shape = c.choice('shape', [nm for nm, _ in docs])
        w.put_json(d, crc, dict(docs)[shape])
        cache = c.new(TC + ':TocCache', **{where + '_cache': d})
        c.reset_trace()
        c.call((cache, 'fetch'), crc)
        c.ensure('no-exception', 'raised is None')
        # an answer that is false (None, {}, [], 0, "") is a miss for the fetcher: it downloads (fetcher.info_reply.*)
        c.ensure('a-table-or-a-miss', 'result is None or not result or is_table(result)')
        c.ensure('fetch-writes-nothing', 'writes() == () and len(calls("os.makedirs")) == 0')
        w.close()
    return k


_foreign_content('empty')
# FINDING CANDIDATE (unchanged tree, replays natively): every shape of 'not_a_table' comes back from fetch as it is (a list, a number, a
# table with numbers for groups ...), the fetcher adopts it as the table (TocFetcher._new_packet_cb: `if (cache_data): self.toc.toc =
# cache_data`) and the connection later fails on it.  Thorough tier only until the maintainer of this directory has decided.
_foreign_content('not_a_table', thorough_only=True)
