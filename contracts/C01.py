"""C01 - radio link delivers every packet exactly once, in order, despite loss.

The REAL `_RadioDriverThread.run()` (negotiation + service loop) and the real `RadioDriver.send_packet/receive_packet`
run against a model of the radio dongle + safelink peer written in the contract (the assumed peer contract, as in the
nRF51 firmware: the peer accepts an uplink frame iff its bit 3 equals the bit it expects and then flips it; it offers
its current downlink packet tagged with an alternating bit in bit 2 and moves to the next one when a frame arrives
whose bit 2 differs from that tag; a null uplink frame (header & 0xF3 == 0xF3) carries no packet).  Every
transmission has one of three outcomes chosen exhaustively: delivered and acknowledged, uplink lost, delivered but
acknowledgement lost; at every transmission the application may or may not submit its next packet.

Bounded (stated per contract): number of transmissions explored exhaustively.  The one-step function
`_send_packet_safe` is proved for all inputs.  Not covered: true concurrency between application threads and the radio
thread (they meet only in queue.Queue, assumed FIFO and thread safe); RadioLinkStatistics is replaced by a stub.
"""
from pyvc.api import contract

RD = 'cflib.crtp.radiodriver'
ACK = 'cflib.drivers.crazyradio:_radio_ack'
STK = 'cflib.crtp.crtpstack'

OUTCOMES = ['acked', 'uplink-lost', 'ack-lost']


def mk_ack(c, ack, data):
    return c.obj(ACK, ack=ack, data=data, powerDet=False, retry=0)


@contract('C01', 'send_packet_safe', [RD + ':_RadioDriverThread._send_packet_safe'],
          clause='alternating-bit safelink step: the frame carries the current up/down bits in header bits 3 and 2 (rest untouched); the up bit '
                 'flips iff the transmission was acknowledged; the down bit flips iff an acknowledged reply carries the expected bit')
def send_packet_safe(c):
    up, down = c.int('up', 0, 1), c.int('down', 0, 1)
    frame = c.bytearray('frame', 4)
    kind = c.choice('resp_kind', ['none', 'noack', 'ack-empty', 'ack-data'])
    c.int('d0', 0, 255)
    if kind == 'none':
        resp = None
    elif kind == 'noack':
        resp = mk_ack(c, False, ())
    elif kind == 'ack-empty':
        resp = mk_ack(c, True, ())
    else:
        resp = mk_ack(c, True, c.snapshot('rdata', 'bytes([d0, 1, 2])'))
    radio = c.ext('radio', returns={'send_packet': resp})
    th = c.new(RD + ':_RadioDriverThread', radio, c.queue('inq'), c.queue('outq', maxsize=1), None, c.ext('link_error'), c.ext('link'), None)
    c.set(th, '_curr_up', up), c.set(th, '_curr_down', down)
    c.let('th', th), c.let('kind', kind)
    c.snapshot('frame0', 'bytes(frame)')
    c.call((th, '_send_packet_safe'), radio, frame)
    c.ensure('no-exception', 'raised is None')
    c.ensure('one-transmission-of-the-frame', "len(sent('radio.send_packet')) == 1 and is_same(sent('radio.send_packet')[0][1][0], frame)")
    c.ensure('header-bits', 'frame[0] == (frame0[0] & 0xF3) + 8 * up + 4 * down and bytes(frame[1:]) == frame0[1:]')
    c.ensure('up-flips-iff-acked', "th._curr_up == (1 - up if kind in ('ack-empty', 'ack-data') else up)")
    c.ensure('down-flips-iff-acked-data-with-expected-bit', "th._curr_down == (1 - down if (kind == 'ack-data' and ((d0 >> 2) & 1) == down) else down)")


def negotiation(c, th, radio_script):
    pass


def _negotiate(case):
    @contract('C01', 'negotiation.' + case, [RD + ':_RadioDriverThread.run'],
              clause='safelink is used only if the peer confirmed it during link start-up (exact reply ff 05 01 to one of at most 10 requests); '
                     'the upper layer is told to add its own retries exactly when safelink is not in use',
              bounded='reply pattern: %s' % case)
    def k(c):
        n_sent = [0]
        stop = c.raiser('StopLoop')
        good_at = c.choice('good_at', list(range(10))) if case == 'confirmed' else None
        other = c.choice('other_reply', ['none', 'noack', 'ack-empty', 'wrong3', 'longer'])
        c.ints('w', 3, 0, 255)
        if other == 'wrong3':
            c.require('not (w[0] == 0xff and w[1] == 0x05 and w[2] == 0x01)')

        def send(*a):
            i = n_sent[0]
            n_sent[0] += 1
            if case == 'confirmed' and i > good_at or (case != 'confirmed' and i >= 10):
                return stop()           # first transmission of the service loop: end of the scripted run
            if case == 'confirmed' and i == good_at:
                return mk_ack(c, True, c.snapshot('good', 'bytes([0xff, 0x05, 0x01])'))
            if other == 'none':
                return None
            if other == 'noack':
                return mk_ack(c, False, ())
            if other == 'ack-empty':
                return mk_ack(c, True, ())
            if other == 'wrong3':
                return mk_ack(c, True, c.snapshot('wrong', 'bytes(w)'))
            return mk_ack(c, True, c.snapshot('longer', 'bytes([0xff, 0x05, 0x01, 0x00])'))
        radio = c.ext('radio', returns={'send_packet': send})
        link = c.ext('link')
        th = c.new(RD + ':_RadioDriverThread', radio, c.queue('inq'), c.queue('outq', maxsize=1), None, c.ext('link_error'), link, None)
        c.set(th, '_radio_link_statistics', c.ext('stats'))
        c.let('th', th)
        c.call((th, 'run'))
        c.ensure('loop-reached', "raised == 'StopLoop'")
        c.let('confirmed', case == 'confirmed')
        c.ensure('safelink-iff-confirmed', 'th._has_safelink is confirmed')
        c.ensure('upper-layer-told', "sent('set:link.needs_resending')[-1][1][0] is (not confirmed)")
        c.ensure('requests-are-the-safelink-query', "all(tuple(e[1][0]) == (0xff, 0x05, 0x01) for e in sent('radio.send_packet')[:-1])")
        c.let('expected_requests', (good_at + 1) if case == 'confirmed' else 10)
        c.ensure('at-most-ten-requests', "len(sent('radio.send_packet')) - 1 == expected_requests")
        c.ensure('bits-reset-on-success', 'implies(confirmed, th._curr_up == 0 and th._curr_down == 0)')
    return k


_negotiate('confirmed')
_negotiate('never')


def _delivery(K, n_up, n_down):
    @contract('C01', 'delivery.K%d.up%d.down%d' % (K, n_up, n_down),
              [RD + ':_RadioDriverThread.run', RD + ':_RadioDriverThread._send_packet_safe', RD + ':RadioDriver.send_packet', RD + ':RadioDriver.receive_packet'],
              clause='every packet accepted by send_packet reaches the peer exactly once and in submission order, every packet the peer queues comes '
                     'out of receive_packet exactly once and in order, whatever pattern of lost transmissions and lost acknowledgements occurs',
              bounded='%d transmissions after negotiation, every outcome sequence over %s and every submission schedule; %d uplink / %d downlink packets '
                      'with symbolic payloads' % (K, OUTCOMES, n_up, n_down), max_paths=400000, thorough_only=(K > 4))
    def k(c):
        ups = []
        for i in range(n_up):
            d = c.bytes('u%d' % i, 2)
            ups.append(c.new(STK + ':CRTPPacket', 0x30 | (i & 3), d))
        downs = [c.snapshot('dn%d' % j, 'bytes([%d]) + bytes(%s)' % (0x50 | (j & 3), 'D%d' % j)) if c.bytes('D%d' % j, 2) is not None else None
                 for j in range(n_down)]
        peer = {'exp_up': 0, 'tag': 0, 'offer': 0, 'accepted': [], 'tx': 0, 'submitted': 0}
        stop = c.raiser('StopLoop')
        drv = c.new(RD + ':RadioDriver')
        inq, outq = c.queue('inq'), c.queue('outq', maxsize=1)
        c.set(drv, 'in_queue', inq), c.set(drv, 'out_queue', outq)
        errs = c.ext('link_error')
        c.set(drv, 'link_error_callback', errs)

        def send(_i, args, _k):
            frame = args[0]
            t = peer['tx']
            peer['tx'] += 1
            if t == 0:
                return mk_ack(c, True, c.snapshot('good', 'bytes([0xff, 0x05, 0x01])'))
            if t > K:
                return stop()
            # the application may submit its next packet at any time relative to the radio loop
            if peer['submitted'] < n_up and len(outq.items) == 0 and c.choice('submit_at_%d' % t, [False, True]):
                c.invoke((drv, 'send_packet'), ups[peer['submitted']])
                peer['submitted'] += 1
            outcome = c.choice('outcome_%d' % t, OUTCOMES)
            if outcome == 'uplink-lost':
                return mk_ack(c, False, ())
            c.let('frame', frame)
            f_up = c.concretize('(frame[0] >> 3) & 1')
            f_down = c.concretize('(frame[0] >> 2) & 1')
            is_null = c.concretize('(frame[0] & 0xF3) == 0xF3')
            # downlink: the host has the offered packet iff its down bit moved past the tag
            if peer['offer'] < n_down and f_down != peer['tag']:
                peer['offer'] += 1
                peer['tag'] ^= 1
            # uplink: accept iff the expected bit
            if f_up == peer['exp_up']:
                peer['exp_up'] ^= 1
                if not is_null:
                    nm = 'acc%d' % len(peer['accepted'])
                    c.snapshot(nm, 'tuple(frame)')
                    peer['accepted'].append(nm)
            if outcome == 'ack-lost':
                return mk_ack(c, False, ())
            if peer['offer'] < n_down:
                j = peer['offer']
                c.snapshot('ackdata', 'bytes([(dn%d[0] & 0xF3) | %d]) + dn%d[1:]' % (j, (peer['exp_up'] << 3) | (peer['tag'] << 2), j))
                return mk_ack(c, True, c.get('ackdata'))
            return mk_ack(c, True, ())
        radio = c.ext('radio', returns={'send_packet': send})
        th = c.new(RD + ':_RadioDriverThread', radio, inq, outq, None, errs, drv, None)
        c.set(th, '_radio_link_statistics', c.ext('stats'))
        c.let('th', th), c.let('drv', drv)
        c.call((th, 'run'))
        c.ensure('loop-survives', "raised == 'StopLoop'")
        c.ensure('no-link-error', "len(sent('link_error')) == 0")
        na = len(peer['accepted'])
        c.let('na', na), c.let('submitted', peer['submitted'])
        c.ensure('accepted-is-prefix-of-submitted', 'na <= submitted')
        for i in range(min(na, n_up)):
            c.let('up_i', ups[i])
            c.ensure('uplink-%d-exactly-once-in-order' % i, "(acc%d[0] & 0xF3) == (up_i.header & 0xF3) and bytes(acc%d[1:]) == bytes(up_i.data)" % (i, i))
        c.ensure('at-most-one-in-flight', 'submitted - na <= 2')
        # downlink: what the application can take out of receive_packet
        got = []
        for j in range(n_down + 1):
            c.call((drv, 'receive_packet'), 0)
            if c.get('result') is None:
                break
            nm = 'rx%d' % j
            c.let(nm, c.get('result'))
            got.append(nm)
        c.let('n_rx', len(got))
        c.let('offer', peer['offer'])
        c.ensure('received-count-matches-peer-progress', 'offer <= n_rx <= min(offer + 1, %d)' % n_down)
        for j, nm in enumerate(got[:n_down]):
            c.ensure('downlink-%d-exactly-once-in-order' % j, "%s.port == 5 and %s.channel == %d and bytes(%s.data) == dn%d[1:]" % (nm, nm, j & 3, nm, j))
    return k


_delivery(4, 2, 2)
_delivery(5, 3, 3)     # thorough only
_delivery(6, 3, 3)     # thorough only


def _link_error(N):
    @contract('C01', 'link-error.N%d' % N, [RD + ':_RadioDriverThread.run', RD + ':set_retries_before_disconnect'],
              clause='a link error is reported exactly when the configured number of consecutive transmissions go unacknowledged, the count '
                     'restarting at every acknowledgement',
              bounded='configured count %d; every ack / no-ack sequence of 6 transmissions' % N)
    def k(c):
        c.invoke(RD + ':set_retries_before_disconnect', N)
        stop = c.raiser('StopLoop')
        st = {'tx': 0, 'run': 0, 'expected': []}
        K = 6

        def send(_i, args, _k):
            t = st['tx']
            st['tx'] += 1
            if t == 0:
                return mk_ack(c, True, c.snapshot('good', 'bytes([0xff, 0x05, 0x01])'))
            if t > K:
                return stop()
            acked = c.choice('acked_%d' % t, [True, False])
            if acked:
                st['run'] = 0
                return mk_ack(c, True, ())
            st['run'] += 1
            if st['run'] == N:
                st['expected'].append(t)
            return mk_ack(c, False, ())
        radio = c.ext('radio', returns={'send_packet': send})
        errs = c.ext('link_error')
        th = c.new(RD + ':_RadioDriverThread', radio, c.queue('inq'), c.queue('outq', maxsize=1), None, errs, c.ext('link'), None)
        c.set(th, '_radio_link_statistics', c.ext('stats'))
        c.call((th, 'run'))
        c.invoke(RD + ':set_retries_before_disconnect', 100)
        c.ensure('loop-survives', "raised == 'StopLoop'")
        # position of each report in the trace = number of transmissions before it (minus the negotiation request)
        c.snapshot('report_positions', "tuple(sum(1 for e in trace[:i] if e[0] == 'radio.send_packet') - 1 for i in range(len(trace)) if trace[i][0] == 'link_error')")
        c.let('expected', tuple(st['expected']))
        c.ensure('reported-exactly-at-the-Nth-consecutive-loss', 'report_positions == expected')
        c.ensure('report-text', "all(e[1] == ('Too many packets lost',) for e in sent('link_error'))")
    return k


for _N in (1, 2, 3):
    _link_error(_N)


@contract('C01', 'send_packet.full-queue', [RD + ':RadioDriver.send_packet'],
          clause='send_packet returns True iff the packet was accepted; when the hand-off queue stays full the link error callback fires once and the packet is not accepted')
def send_full(c):
    drv = c.new(RD + ':RadioDriver')
    full = c.choice('queue_full', [False, True])
    pk0 = c.new(STK + ':CRTPPacket', 0x30, c.bytes('a', 1))
    pk = c.new(STK + ':CRTPPacket', 0x31, c.bytes('b', 1))
    outq = c.queue('outq', [pk0] if full else [], maxsize=1)
    c.set(drv, 'out_queue', outq)
    errs = c.ext('link_error')
    c.set(drv, 'link_error_callback', errs)
    c.let('full', full), c.let('outq', outq), c.let('pk', pk)
    c.call((drv, 'send_packet'), pk)
    c.ensure('no-exception', 'raised is None')
    c.ensure('true-iff-accepted', 'result is (not full) and (is_same(outq.queue[-1], pk)) is (not full)')
    c.ensure('error-reported-iff-refused', "len(sent('link_error')) == (1 if full else 0)")


# ------------------------------------------------------------------------- the path below the radio thread: dongle ack decoding and the shared radio

CR = 'cflib.drivers.crazyradio'


def _ack_decode(n):
    @contract('C01', 'crazyradio.send_packet.len%d' % n, [CR + ':Crazyradio.send_packet'],
              clause='the dongle reply is decoded into exactly the acknowledgement the radio loop relies on: ack = bit 0, power detector = bit 1, '
                     'retries = high nibble, ack payload = the remaining bytes; a reply whose status byte is 0 is "not acknowledged"; no reply gives None',
              bounded='reply of %d bytes (1, 4 and 33 enumerated), every byte value' % n)
    def k(c):
        rx = c.bytes('rx', n)
        got = c.choice('dongle_answers', [True, False])
        handle = c.ext('handle', returns={'read': rx if got else None})
        c.patch(CR + ':Crazyradio._log_packet', c.ext('log_packet'))
        c.int('arc', 0, 15)
        radio = c.obj(CR + ':Crazyradio', handle=handle, devid=0, current_address=None, current_channel=None, current_datarate=None, arc=c.get('arc'))
        out = c.bytes('out', 3)
        c.call((radio, 'send_packet'), out)
        c.ensure('no-exception', 'raised is None')
        c.ensure('frame-written-once-then-one-read', "calls('handle') == ('handle.write', 'handle.read') and sent('handle.write')[0][2]['data'] == out")
        if not got:
            c.ensure('no-reply-is-none', 'result is None')
        else:
            c.ensure('status-zero-means-not-acknowledged', 'implies(rx[0] == 0, result.ack is False and result.retry == arc and len(result.data) == 0)')
            c.ensure('ack-bit', 'implies(rx[0] != 0, result.ack == ((rx[0] & 1) == 1))')
            c.ensure('power-detector-bit', 'implies(rx[0] != 0, result.powerDet == (((rx[0] >> 1) & 1) == 1))')
            c.ensure('retry-count', 'implies(rx[0] != 0, result.retry == rx[0] >> 4)')
            c.ensure('ack-payload', 'implies(rx[0] != 0, bytes(result.data) == rx[1:])')
    return k


for _n in (1, 4, 33):
    _ack_decode(_n)


@contract('C01', 'shared_radio.send', [RD + ':_SharedRadioInstance.send_packet', RD + ':_SharedRadio.run'],
          clause='a frame handed to one link of a shared dongle is transmitted once with that link\'s channel, address and data rate, and its '
                 'acknowledgement is returned to that link and to no other',
          bounded='two links sharing one dongle')
def shared_radio(c):
    acks = [mk_ack(c, True, c.bytes('a0', 2)), mk_ack(c, False, ())]
    it = iter(acks)
    radio = c.ext('dongle', returns={'send_packet': lambda *_a: next(it)})
    cmdq = c.queue('cmdq')
    rq = [c.queue('rsp0'), c.queue('rsp1')]
    inst = []
    for i in range(2):
        x = c.new(RD + ':_SharedRadioInstance', i, cmdq, rq[i], 0.5)
        c.int('ch%d' % i, 0, 125), c.int('dr%d' % i, 0, 2)
        addr = c.ints('ad%d' % i, 5, 0, 255, kind='tuple')
        c.call((x, 'set_channel'), c.get('ch%d' % i)), c.call((x, 'set_data_rate'), c.get('dr%d' % i)), c.call((x, 'set_address'), addr)
        inst.append(x)
    shared = c.obj(RD + ':_SharedRadio', _radio=radio, _devid=0, _cmd_queue=cmdq, _rsp_queues=c.dict([(0, rq[0]), (1, rq[1])]),
                   _next_instance_id=2, _lock=c.lock('sem'))
    frames = [c.bytes('f0', 3), c.bytes('f1', 3)]
    order = c.choice('order', [(0, 1), (1, 0)])
    c.reset_trace()
    for j, who in enumerate(order):
        # the link thread blocks in rsp_queue.get() until the shared radio thread has served the command
        c.call((inst[who], 'send_packet'), frames[who])
        c.ensure('link-%d-waits-for-its-answer' % j, "raised == 'Deadlock'")
        c.call((shared, 'run'))
        c.ensure('radio-thread-idle-again-%d' % j, "raised == 'Deadlock'")
    c.let('order', order)
    c.let('rq', tuple(rq)), c.let('frames', tuple(frames)), c.let('acks', tuple(acks))
    for j, who in enumerate(order):
        c.ensure('answer-%d-to-the-asking-link-only' % j, 'len(rq[%d].queue) == 1 and is_same(rq[%d].queue[0], acks[%d])' % (who, who, j))
        c.let('tx', tuple(e for e in (c.get('trace') or ()) if e[0].startswith('dongle.'))[4 * j:4 * j + 4])
        c.ensure('settings-then-frame-%d' % j, "tuple(e[0] for e in tx) == ('dongle.set_channel', 'dongle.set_address', 'dongle.set_data_rate', 'dongle.send_packet') and "
                 "tx[0][1][0] == ch%d and tuple(tx[1][1][0]) == tuple(ad%d) and tx[2][1][0] == dr%d and tx[3][1][0] == frames[%d]" % (who, who, who, who))
    c.ensure('exactly-two-transmissions', "len(sent('dongle.send_packet')) == 2")


@contract('C01', 'crazyradio.settings-cache', [CR + ':Crazyradio.set_channel', CR + ':Crazyradio.set_data_rate', CR + ':Crazyradio.scan_channels',
                                               CR + ':Crazyradio.scan_selected'],
          clause='a frame handed to the dongle goes out on the channel and data rate of its link: the dongle only skips a setting request when the '
                 'dongle really has that setting, also after a scan ran on the same dongle in between',
          bounded='one scan (channel range or two selected entries) between two uses of a link on the same dongle')
def settings_cache(c):
    vendor = c.ext('vendor')
    c.patch(CR + ':_send_vendor_setup', vendor)
    c.patch(CR + ':Crazyradio._log_packet', c.ext('log_packet'))
    handle = c.ext('handle', returns={'read': None})
    c.int('c0', 0, 125), c.int('d0', 0, 2)
    radio = c.obj(CR + ':Crazyradio', handle=handle, devid=0, current_address=None, current_channel=None, current_datarate=None, arc=3)
    c.call((radio, 'set_channel'), c.get('c0'))
    c.call((radio, 'set_data_rate'), c.get('d0'))
    what = c.choice('scan', ['channels', 'selected', 'none'])
    if what == 'channels':
        c.int('start', 0, 125)
        width = c.choice('width', [0, 1, 2])
        c.call((radio, 'scan_channels'), c.get('start'), c.snapshot('stop', 'start + %d' % width), (0xFF,))
    elif what == 'selected':
        c.int('s1', 0, 125), c.int('r1', 0, 2), c.int('s2', 0, 125), c.int('r2', 0, 2)
        c.call((radio, 'scan_selected'), (c.dict([('channel', c.get('s1')), ('datarate', c.get('r1'))]),
                                           c.dict([('channel', c.get('s2')), ('datarate', c.get('r2'))])), (0xFF,))
    c.ensure('scan-returns', 'raised is None')
    # the link is used again
    c.call((radio, 'set_channel'), c.get('c0'))
    c.call((radio, 'set_data_rate'), c.get('d0'))
    c.snapshot('ch_reqs', "tuple(e[1][2] for e in sent('vendor') if e[1][1] == 0x01)")
    c.snapshot('dr_reqs', "tuple(e[1][2] for e in sent('vendor') if e[1][1] == 0x03)")
    c.ensure('dongle-is-on-the-link-channel', 'len(ch_reqs) >= 1 and ch_reqs[-1] == c0')
    c.ensure('dongle-has-the-link-data-rate', 'len(dr_reqs) >= 1 and dr_reqs[-1] == d0')


@contract('C01', 'shared_radio.instance-ids', [RD + ':_SharedRadio.open_instance', RD + ':_SharedRadioInstance.close', RD + ':_SharedRadio.run'],
          clause='links sharing one dongle never share a response queue: opening a link while others are open, also after an earlier one was '
                 'closed, gives it an id and a queue of its own, so acknowledgements and downlink packets cannot reach another link',
          bounded='history open A, open B, close A, open C')
def instance_ids(c):
    radio = c.ext('dongle')
    cmdq = c.queue('cmdq')
    shared = c.obj(RD + ':_SharedRadio', _radio=radio, _devid=0, _cmd_queue=cmdq, _rsp_queues=c.dict([]), _next_instance_id=0,
                   _lock=c.lock('sem'), version=0.5)
    c.let('shared', shared)
    a = c.call((shared, 'open_instance'))
    b = c.call((shared, 'open_instance'))
    c.let('a', a), c.let('b', b)
    c.call((a, 'close'))
    c.call((shared, 'run'))           # the radio thread serves the STOP command, then waits
    c.ensure('radio-thread-idle', "raised == 'Deadlock'")
    cc = c.call((shared, 'open_instance'))
    c.let('cc', cc)
    c.ensure('ids-of-live-links-differ', 'b._instance_id != cc._instance_id')
    c.ensure('queues-of-live-links-differ', 'not is_same(b._rsp_queue, cc._rsp_queue)')
    c.ensure('each-live-link-is-served-through-its-own-queue', 'is_same(shared._rsp_queues[b._instance_id], b._rsp_queue) and '
             'is_same(shared._rsp_queues[cc._instance_id], cc._rsp_queue) and len(shared._rsp_queues) == 2')
    c.ensure('dongle-kept-open-for-the-remaining-link', "len(sent('dongle.close')) == 0")
