"""C01 - radio link delivers every packet exactly once, in order, despite loss.

The REAL `_RadioDriverThread.run()` (negotiation + service loop) and the real `RadioDriver.send_packet/receive_packet`
run against a model of the radio dongle + safelink peer written in the contract (the assumed peer contract, as in the
nRF51 firmware: the peer accepts an uplink frame iff its bit 3 equals the bit it expects and then flips it; it offers
its current downlink packet tagged with an alternating bit in bit 2 and moves to the next one when a frame arrives
whose bit 2 differs from that tag; a null uplink frame (header & 0xF3 == 0xF3) carries no packet).  Every
transmission has one of three outcomes chosen exhaustively: delivered and acknowledged, uplink lost, delivered but
acknowledgement lost; at every transmission the application may or may not submit its next packet.

Bounded (stated per contract): number of transmissions explored exhaustively in the `delivery.*` contracts (these give replayable
counterexamples); `delivery.inductive` removes that bound with an inductive invariant of the service loop (any number of transmissions,
packets and any configured loss count N), its failures are reported as undecided auxiliary obligations (exit 2), not as replays; it finds the loop and its locals by their use, not their names.  The
one-step function `_send_packet_safe` is proved for all inputs.

Further down: the real RadioLinkStatistics inside the loop (numpy's diff / exp / sum replaced by a stub: assumed total), a fourth outcome
"the dongle reports no status", pause() / restart() / close() / reconnect as explicit schedules (the application's call is made from
inside a radio transaction, i.e. while the radio thread is busy; it continues at once unless it is held by an UNTIMED Thread.join, in
which case it continues when run() has returned), the shared dongle down to the USB vendor requests, RadioManager, Crazyradio.__init__.

Not covered: true concurrency between application threads and the radio thread other than those schedules (they meet only in
queue.Queue, assumed FIFO and thread safe; the application submits only when the hand-off queue has room); an exception raised by the
dongle object itself (reported as a link failure by the loop, outside the property); USB enumeration, PCAP logging, the firmware-driven
scan (dead code), string formatting.  Known to fail on the unchanged tree (thorough tier only): pause-restart.accepted-before-pause.
"""
from pyvc.api import contract

RD = 'cflib.crtp.radiodriver'
ACK = 'cflib.drivers.crazyradio:_radio_ack'
STK = 'cflib.crtp.crtpstack'

OUTCOMES = ['acked', 'uplink-lost', 'ack-lost']


def mk_ack(c, ack, data):
    return c.obj(ACK, ack=ack, data=data, powerDet=False, retry=0)


@contract('C01', 'send_packet_safe', [RD + ':_RadioDriverThread._send_packet_safe'],
          clause='alternating-bit safelink step: the frame carries the current up/down bits in header bits 3 and 2 (rest untouched); the up bit '
                 'flips iff the transmission was acknowledged; the down bit flips iff an acknowledged reply carries the expected bit')
def send_packet_safe(c):
    up, down = c.int('up', 0, 1), c.int('down', 0, 1)
    frame = c.bytearray('frame', 4)
    kind = c.choice('resp_kind', ['none', 'noack', 'ack-empty', 'ack-data'])
    c.int('d0', 0, 255)
    if kind == 'none':
        resp = None
    elif kind == 'noack':
        resp = mk_ack(c, False, ())
    elif kind == 'ack-empty':
        resp = mk_ack(c, True, ())
    else:
        resp = mk_ack(c, True, c.snapshot('rdata', 'bytes([d0, 1, 2])'))
    radio = c.ext('radio', returns={'send_packet': resp})
    th = c.new(RD + ':_RadioDriverThread', radio, c.queue('inq'), c.queue('outq', maxsize=1), None, c.ext('link_error'), c.ext('link'), None)
    c.set(th, '_curr_up', up), c.set(th, '_curr_down', down)
    c.let('th', th), c.let('kind', kind)
    c.snapshot('frame0', 'bytes(frame)')
    c.call((th, '_send_packet_safe'), radio, frame)
    c.ensure('no-exception', 'raised is None')
    c.ensure('one-transmission-of-the-frame', "len(sent('radio.send_packet')) == 1 and is_same(sent('radio.send_packet')[0][1][0], frame)")
    c.ensure('header-bits', 'frame[0] == (frame0[0] & 0xF3) + 8 * up + 4 * down and bytes(frame[1:]) == frame0[1:]')
    c.ensure('up-flips-iff-acked', "th._curr_up == (1 - up if kind in ('ack-empty', 'ack-data') else up)")
    c.ensure('down-flips-iff-acked-data-with-expected-bit', "th._curr_down == (1 - down if (kind == 'ack-data' and ((d0 >> 2) & 1) == down) else down)")


def negotiation(c, th, radio_script):
    pass


def _negotiate(case):
    @contract('C01', 'negotiation.' + case, [RD + ':_RadioDriverThread.run'],
              clause='safelink is used only if the peer confirmed it during link start-up (exact reply ff 05 01 to one of at most 10 requests); '
                     'the upper layer is told to add its own retries exactly when safelink is not in use',
              bounded='reply pattern: %s' % case)
    def k(c):
        n_sent = [0]
        stop = c.raiser('StopLoop')
        good_at = c.choice('good_at', list(range(10))) if case == 'confirmed' else None
        other = c.choice('other_reply', ['none', 'noack', 'ack-empty', 'wrong3', 'longer'])
        c.ints('w', 3, 0, 255)
        if other == 'wrong3':
            c.require('not (w[0] == 0xff and w[1] == 0x05 and w[2] == 0x01)')

        def send(*a):
            i = n_sent[0]
            n_sent[0] += 1
            if case == 'confirmed' and i > good_at or (case != 'confirmed' and i >= 10):
                return stop()           # first transmission of the service loop: end of the scripted run
            if case == 'confirmed' and i == good_at:
                return mk_ack(c, True, c.snapshot('good', 'bytes([0xff, 0x05, 0x01])'))
            if other == 'none':
                return None
            if other == 'noack':
                return mk_ack(c, False, ())
            if other == 'ack-empty':
                return mk_ack(c, True, ())
            if other == 'wrong3':
                return mk_ack(c, True, c.snapshot('wrong', 'bytes(w)'))
            return mk_ack(c, True, c.snapshot('longer', 'bytes([0xff, 0x05, 0x01, 0x00])'))
        radio = c.ext('radio', returns={'send_packet': send})
        link = c.ext('link')
        th = c.new(RD + ':_RadioDriverThread', radio, c.queue('inq'), c.queue('outq', maxsize=1), None, c.ext('link_error'), link, None)
        c.set(th, '_radio_link_statistics', c.ext('stats'))
        c.let('th', th)
        c.call((th, 'run'))
        c.ensure('loop-reached', "raised == 'StopLoop'")
        c.let('confirmed', case == 'confirmed')
        c.ensure('safelink-iff-confirmed', 'th._has_safelink is confirmed')
        c.ensure('upper-layer-told', "sent('set:link.needs_resending')[-1][1][0] is (not confirmed)")
        c.ensure('requests-are-the-safelink-query', "all(tuple(e[1][0]) == (0xff, 0x05, 0x01) for e in sent('radio.send_packet')[:-1])")
        c.let('expected_requests', (good_at + 1) if case == 'confirmed' else 10)
        c.ensure('at-most-ten-requests', "len(sent('radio.send_packet')) - 1 == expected_requests")
        c.ensure('bits-reset-on-success', 'implies(confirmed, th._curr_up == 0 and th._curr_down == 0)')
    return k


_negotiate('confirmed')
_negotiate('never')


def _delivery(K, n_up, n_down):
    @contract('C01', 'delivery.K%d.up%d.down%d' % (K, n_up, n_down),
              [RD + ':_RadioDriverThread.run', RD + ':_RadioDriverThread._send_packet_safe', RD + ':RadioDriver.send_packet', RD + ':RadioDriver.receive_packet'],
              clause='every packet accepted by send_packet reaches the peer exactly once and in submission order, every packet the peer queues comes '
                     'out of receive_packet exactly once and in order, whatever pattern of lost transmissions and lost acknowledgements occurs',
              bounded='%d transmissions after negotiation, every outcome sequence over %s and every submission schedule; %d uplink / %d downlink packets '
                      'with symbolic payloads' % (K, OUTCOMES, n_up, n_down), max_paths=400000, thorough_only=(K > 4))
    def k(c):
        ups = []
        for i in range(n_up):
            d = c.bytes('u%d' % i, 2)
            ups.append(c.new(STK + ':CRTPPacket', 0x30 | (i & 3), d))
        downs = [c.snapshot('dn%d' % j, 'bytes([%d]) + bytes(%s)' % (0x50 | (j & 3), 'D%d' % j)) if c.bytes('D%d' % j, 2) is not None else None
                 for j in range(n_down)]
        peer = {'exp_up': 0, 'tag': 0, 'offer': 0, 'accepted': [], 'tx': 0, 'submitted': 0}
        stop = c.raiser('StopLoop')
        drv = c.new(RD + ':RadioDriver')
        inq, outq = c.queue('inq'), c.queue('outq', maxsize=1)
        c.set(drv, 'in_queue', inq), c.set(drv, 'out_queue', outq)
        errs = c.ext('link_error')
        c.set(drv, 'link_error_callback', errs)

        def send(_i, args, _k):
            frame = args[0]
            t = peer['tx']
            peer['tx'] += 1
            if t == 0:
                return mk_ack(c, True, c.snapshot('good', 'bytes([0xff, 0x05, 0x01])'))
            if t > K:
                return stop()
            # the application may submit its next packet at any time relative to the radio loop
            if peer['submitted'] < n_up and len(outq.items) == 0 and c.choice('submit_at_%d' % t, [False, True]):
                c.invoke((drv, 'send_packet'), ups[peer['submitted']])
                peer['submitted'] += 1
            outcome = c.choice('outcome_%d' % t, OUTCOMES)
            if outcome == 'uplink-lost':
                return mk_ack(c, False, ())
            c.let('frame', frame)
            f_up = c.concretize('(frame[0] >> 3) & 1')
            f_down = c.concretize('(frame[0] >> 2) & 1')
            is_null = c.concretize('(frame[0] & 0xF3) == 0xF3')
            # downlink: the host has the offered packet iff its down bit moved past the tag
            if peer['offer'] < n_down and f_down != peer['tag']:
                peer['offer'] += 1
                peer['tag'] ^= 1
            # uplink: accept iff the expected bit
            if f_up == peer['exp_up']:
                peer['exp_up'] ^= 1
                if not is_null:
                    nm = 'acc%d' % len(peer['accepted'])
                    c.snapshot(nm, 'tuple(frame)')
                    peer['accepted'].append(nm)
            if outcome == 'ack-lost':
                return mk_ack(c, False, ())
            if peer['offer'] < n_down:
                j = peer['offer']
                c.snapshot('ackdata', 'bytes([(dn%d[0] & 0xF3) | %d]) + dn%d[1:]' % (j, (peer['exp_up'] << 3) | (peer['tag'] << 2), j))
                return mk_ack(c, True, c.get('ackdata'))
            return mk_ack(c, True, ())
        radio = c.ext('radio', returns={'send_packet': send})
        th = c.new(RD + ':_RadioDriverThread', radio, inq, outq, None, errs, drv, None)
        c.set(th, '_radio_link_statistics', c.ext('stats'))
        c.let('th', th), c.let('drv', drv)
        c.call((th, 'run'))
        c.ensure('loop-survives', "raised == 'StopLoop'")
        c.ensure('no-link-error', "len(sent('link_error')) == 0")
        na = len(peer['accepted'])
        c.let('na', na), c.let('submitted', peer['submitted'])
        c.ensure('accepted-is-prefix-of-submitted', 'na <= submitted')
        for i in range(min(na, n_up)):
            c.let('up_i', ups[i])
            c.ensure('uplink-%d-exactly-once-in-order' % i, "(acc%d[0] & 0xF3) == (up_i.header & 0xF3) and bytes(acc%d[1:]) == bytes(up_i.data)" % (i, i))
        c.ensure('at-most-one-in-flight', 'submitted - na <= 2')
        # downlink: what the application can take out of receive_packet
        got = []
        for j in range(n_down + 1):
            c.call((drv, 'receive_packet'), 0)
            if c.get('result') is None:
                break
            nm = 'rx%d' % j
            c.let(nm, c.get('result'))
            got.append(nm)
        c.let('n_rx', len(got))
        c.let('offer', peer['offer'])
        c.ensure('received-count-matches-peer-progress', 'offer <= n_rx <= min(offer + 1, %d)' % n_down)
        for j, nm in enumerate(got[:n_down]):
            c.ensure('downlink-%d-exactly-once-in-order' % j, "%s.port == 5 and %s.channel == %d and bytes(%s.data) == dn%d[1:]" % (nm, nm, j & 3, nm, j))
    return k


_delivery(4, 2, 2)
_delivery(5, 3, 3)     # thorough only
_delivery(6, 3, 3)     # thorough only


def _link_error(N):
    @contract('C01', 'link-error.N%d' % N, [RD + ':_RadioDriverThread.run', RD + ':set_retries_before_disconnect'],
              clause='a link error is reported exactly when the configured number of consecutive transmissions go unacknowledged, the count '
                     'restarting at every acknowledgement',
              bounded='configured count %d; every ack / no-ack sequence of 6 transmissions' % N)
    def k(c):
        c.invoke(RD + ':set_retries_before_disconnect', N)
        stop = c.raiser('StopLoop')
        st = {'tx': 0, 'run': 0, 'expected': []}
        K = 6

        def send(_i, args, _k):
            t = st['tx']
            st['tx'] += 1
            if t == 0:
                return mk_ack(c, True, c.snapshot('good', 'bytes([0xff, 0x05, 0x01])'))
            if t > K:
                return stop()
            acked = c.choice('acked_%d' % t, [True, False])
            if acked:
                st['run'] = 0
                return mk_ack(c, True, ())
            st['run'] += 1
            if st['run'] == N:
                st['expected'].append(t)
            return mk_ack(c, False, ())
        radio = c.ext('radio', returns={'send_packet': send})
        errs = c.ext('link_error')
        th = c.new(RD + ':_RadioDriverThread', radio, c.queue('inq'), c.queue('outq', maxsize=1), None, errs, c.ext('link'), None)
        c.set(th, '_radio_link_statistics', c.ext('stats'))
        c.call((th, 'run'))
        c.invoke(RD + ':set_retries_before_disconnect', 100)
        c.ensure('loop-survives', "raised == 'StopLoop'")
        # position of each report in the trace = number of transmissions before it (minus the negotiation request)
        c.snapshot('report_positions', "tuple(sum(1 for e in trace[:i] if e[0] == 'radio.send_packet') - 1 for i in range(len(trace)) if trace[i][0] == 'link_error')")
        c.let('expected', tuple(st['expected']))
        c.ensure('reported-exactly-at-the-Nth-consecutive-loss', 'report_positions == expected')
        c.ensure('report-text', "all(e[1] == ('Too many packets lost',) for e in sent('link_error'))")
    return k


for _N in (1, 2, 3):
    _link_error(_N)


@contract('C01', 'send_packet.full-queue', [RD + ':RadioDriver.send_packet'],
          clause='send_packet returns True iff the packet was accepted; when the hand-off queue stays full the link error callback fires once and the packet is not accepted')
def send_full(c):
    drv = c.new(RD + ':RadioDriver')
    full = c.choice('queue_full', [False, True])
    pk0 = c.new(STK + ':CRTPPacket', 0x30, c.bytes('a', 1))
    pk = c.new(STK + ':CRTPPacket', 0x31, c.bytes('b', 1))
    outq = c.queue('outq', [pk0] if full else [], maxsize=1)
    c.set(drv, 'out_queue', outq)
    errs = c.ext('link_error')
    c.set(drv, 'link_error_callback', errs)
    c.let('full', full), c.let('outq', outq), c.let('pk', pk)
    c.call((drv, 'send_packet'), pk)
    c.ensure('no-exception', 'raised is None')
    c.ensure('true-iff-accepted', 'result is (not full) and (is_same(outq.queue[-1], pk)) is (not full)')
    c.ensure('error-reported-iff-refused', "len(sent('link_error')) == (1 if full else 0)")


# ------------------------------------------------------------------------- the path below the radio thread: dongle ack decoding and the shared radio

CR = 'cflib.drivers.crazyradio'


def _ack_decode(n):
    @contract('C01', 'crazyradio.send_packet.len%d' % n, [CR + ':Crazyradio.send_packet'],
              clause='the dongle reply is decoded into exactly the acknowledgement the radio loop relies on: ack = bit 0, power detector = bit 1, '
                     'retries = high nibble, ack payload = the remaining bytes; a reply whose status byte is 0 is "not acknowledged"; no reply gives None',
              bounded='reply of %d bytes (1, 4 and 33 enumerated), every byte value' % n)
    def k(c):
        rx = c.bytes('rx', n)
        got = c.choice('dongle_answers', [True, False])
        handle = c.ext('handle', returns={'read': rx if got else None})
        c.patch(CR + ':Crazyradio._log_packet', c.ext('log_packet'))
        c.int('arc', 0, 15)
        radio = c.obj(CR + ':Crazyradio', handle=handle, devid=0, current_address=None, current_channel=None, current_datarate=None, arc=c.get('arc'))
        out = c.bytes('out', 3)
        c.call((radio, 'send_packet'), out)
        c.ensure('no-exception', 'raised is None')
        c.ensure('frame-written-once-then-one-read', "calls('handle') == ('handle.write', 'handle.read') and sent('handle.write')[0][2]['data'] == out")
        if not got:
            c.ensure('no-reply-is-none', 'result is None')
        else:
            c.ensure('status-zero-means-not-acknowledged', 'implies(rx[0] == 0, result.ack is False and result.retry == arc and len(result.data) == 0)')
            c.ensure('ack-bit', 'implies(rx[0] != 0, result.ack == ((rx[0] & 1) == 1))')
            c.ensure('power-detector-bit', 'implies(rx[0] != 0, result.powerDet == (((rx[0] >> 1) & 1) == 1))')
            c.ensure('retry-count', 'implies(rx[0] != 0, result.retry == rx[0] >> 4)')
            c.ensure('ack-payload', 'implies(rx[0] != 0, bytes(result.data) == rx[1:])')
    return k


for _n in (1, 4, 33):
    _ack_decode(_n)


@contract('C01', 'shared_radio.send', [RD + ':_SharedRadioInstance.send_packet', RD + ':_SharedRadio.run'],
          clause='a frame handed to one link of a shared dongle is transmitted once with that link\'s channel, address and data rate, and its '
                 'acknowledgement is returned to that link and to no other',
          bounded='two links sharing one dongle')
def shared_radio(c):
    acks = [mk_ack(c, True, c.bytes('a0', 2)), mk_ack(c, False, ())]
    it = iter(acks)
    radio = c.ext('dongle', returns={'send_packet': lambda *_a: next(it)})
    cmdq = c.queue('cmdq')
    rq = [c.queue('rsp0'), c.queue('rsp1')]
    inst = []
    for i in range(2):
        x = c.new(RD + ':_SharedRadioInstance', i, cmdq, rq[i], 0.5)
        c.int('ch%d' % i, 0, 125), c.int('dr%d' % i, 0, 2)
        addr = c.ints('ad%d' % i, 5, 0, 255, kind='tuple')
        c.call((x, 'set_channel'), c.get('ch%d' % i)), c.call((x, 'set_data_rate'), c.get('dr%d' % i)), c.call((x, 'set_address'), addr)
        inst.append(x)
    shared = c.obj(RD + ':_SharedRadio', _radio=radio, _devid=0, _cmd_queue=cmdq, _rsp_queues=c.dict([(0, rq[0]), (1, rq[1])]),
                   _next_instance_id=2, _lock=c.lock('sem'))
    frames = [c.bytes('f0', 3), c.bytes('f1', 3)]
    order = c.choice('order', [(0, 1), (1, 0)])
    c.reset_trace()
    for j, who in enumerate(order):
        # the link thread blocks in rsp_queue.get() until the shared radio thread has served the command
        c.call((inst[who], 'send_packet'), frames[who])
        c.ensure('link-%d-waits-for-its-answer' % j, "raised == 'Deadlock'")
        c.call((shared, 'run'))
        c.ensure('radio-thread-idle-again-%d' % j, "raised == 'Deadlock'")
    c.let('order', order)
    c.let('rq', tuple(rq)), c.let('frames', tuple(frames)), c.let('acks', tuple(acks))
    for j, who in enumerate(order):
        c.ensure('answer-%d-to-the-asking-link-only' % j, 'len(rq[%d].queue) == 1 and is_same(rq[%d].queue[0], acks[%d])' % (who, who, j))
        c.let('tx', tuple(e for e in (c.get('trace') or ()) if e[0].startswith('dongle.'))[4 * j:4 * j + 4])
        c.ensure('settings-then-frame-%d' % j, "tuple(e[0] for e in tx) == ('dongle.set_channel', 'dongle.set_address', 'dongle.set_data_rate', 'dongle.send_packet') and "
                 "tx[0][1][0] == ch%d and tuple(tx[1][1][0]) == tuple(ad%d) and tx[2][1][0] == dr%d and tx[3][1][0] == frames[%d]" % (who, who, who, who))
    c.ensure('exactly-two-transmissions', "len(sent('dongle.send_packet')) == 2")


@contract('C01', 'crazyradio.settings-cache', [CR + ':Crazyradio.set_channel', CR + ':Crazyradio.set_data_rate', CR + ':Crazyradio.scan_channels',
                                               CR + ':Crazyradio.scan_selected'],
          clause='a frame handed to the dongle goes out on the channel and data rate of its link: the dongle only skips a setting request when the '
                 'dongle really has that setting, also after a scan ran on the same dongle in between',
          bounded='one scan (channel range or two selected entries) between two uses of a link on the same dongle')
def settings_cache(c):
    vendor = c.ext('vendor')
    c.patch(CR + ':_send_vendor_setup', vendor)
    c.patch(CR + ':Crazyradio._log_packet', c.ext('log_packet'))
    handle = c.ext('handle', returns={'read': None})
    c.int('c0', 0, 125), c.int('d0', 0, 2)
    radio = c.obj(CR + ':Crazyradio', handle=handle, devid=0, current_address=None, current_channel=None, current_datarate=None, arc=3)
    c.call((radio, 'set_channel'), c.get('c0'))
    c.call((radio, 'set_data_rate'), c.get('d0'))
    what = c.choice('scan', ['channels', 'selected', 'none'])
    if what == 'channels':
        c.int('start', 0, 125)
        width = c.choice('width', [0, 1, 2])
        c.call((radio, 'scan_channels'), c.get('start'), c.snapshot('stop', 'start + %d' % width), (0xFF,))
    elif what == 'selected':
        c.int('s1', 0, 125), c.int('r1', 0, 2), c.int('s2', 0, 125), c.int('r2', 0, 2)
        c.call((radio, 'scan_selected'), (c.dict([('channel', c.get('s1')), ('datarate', c.get('r1'))]),
                                           c.dict([('channel', c.get('s2')), ('datarate', c.get('r2'))])), (0xFF,))
    c.ensure('scan-returns', 'raised is None')
    # the link is used again
    c.call((radio, 'set_channel'), c.get('c0'))
    c.call((radio, 'set_data_rate'), c.get('d0'))
    c.snapshot('ch_reqs', "tuple(e[1][2] for e in sent('vendor') if e[1][1] == 0x01)")
    c.snapshot('dr_reqs', "tuple(e[1][2] for e in sent('vendor') if e[1][1] == 0x03)")
    c.ensure('dongle-is-on-the-link-channel', 'len(ch_reqs) >= 1 and ch_reqs[-1] == c0')
    c.ensure('dongle-has-the-link-data-rate', 'len(dr_reqs) >= 1 and dr_reqs[-1] == d0')


@contract('C01', 'shared_radio.instance-ids', [RD + ':_SharedRadio.open_instance', RD + ':_SharedRadioInstance.close', RD + ':_SharedRadio.run'],
          clause='links sharing one dongle never share a response queue: opening a link while others are open, also after an earlier one was '
                 'closed, gives it an id and a queue of its own, so acknowledgements and downlink packets cannot reach another link',
          bounded='history open A, open B, close A, open C')
def instance_ids(c):
    radio = c.ext('dongle')
    cmdq = c.queue('cmdq')
    shared = c.obj(RD + ':_SharedRadio', _radio=radio, _devid=0, _cmd_queue=cmdq, _rsp_queues=c.dict([]), _next_instance_id=0,
                   _lock=c.lock('sem'), version=0.5)
    c.let('shared', shared)
    a = c.call((shared, 'open_instance'))
    b = c.call((shared, 'open_instance'))
    c.let('a', a), c.let('b', b)
    c.call((a, 'close'))
    c.call((shared, 'run'))           # the radio thread serves the STOP command, then waits
    c.ensure('radio-thread-idle', "raised == 'Deadlock'")
    cc = c.call((shared, 'open_instance'))
    c.let('cc', cc)
    c.ensure('ids-of-live-links-differ', 'b._instance_id != cc._instance_id')
    c.ensure('queues-of-live-links-differ', 'not is_same(b._rsp_queue, cc._rsp_queue)')
    c.ensure('each-live-link-is-served-through-its-own-queue', 'is_same(shared._rsp_queues[b._instance_id], b._rsp_queue) and '
             'is_same(shared._rsp_queues[cc._instance_id], cc._rsp_queue) and len(shared._rsp_queues) == 2')
    c.ensure('dongle-kept-open-for-the-remaining-link', "len(sent('dongle.close')) == 0")


# ------------------------------------------------------------------------- the statistics hook that runs inside the radio loop

RLS = 'cflib.crtp.radio_link_statistics'
RLS_FUNCS = [RLS + ':RadioLinkStatistics.update', RLS + ':RadioLinkStatistics._update_link_quality', RLS + ':RadioLinkStatistics._update_rssi',
             RLS + ':RadioLinkStatistics._update_rate_and_congestion']


def np_stub(c):
    """numpy is outside the interpreter's subset and the VALUE of the averaged RSSI is irrelevant to C01: np.diff / np.exp / np.sum are
    assumed to be total on the equal-length numeric deques they are given (replaced in both back ends)."""
    return c.patch(RLS + ':np', c.ext('np', returns={'diff': 0.0, 'exp': 1, 'sum': 1.0}))


def stats_clock(c, steps=(0.0, 0.25), n=400):
    """the wall clock the statistics read: either so fast that no rate report is due, or a report is due at every acknowledgement
    (concrete readings: symbolic float clocks make every path a floating-point solver problem)"""
    step = c.choice('clock_step', list(steps)) if len(steps) > 1 else steps[0]
    c.virtual_time(clock=[1000.0 + step * i for i in range(n)])


def _stats_update(n):
    @contract('C01', 'link_statistics.update.len%d' % n, RLS_FUNCS,
              clause='whatever pattern of acknowledgements occurs the radio loop keeps delivering: the statistics hook that runs inside the radio loop after '
                     'every acknowledged transmission returns normally for every acknowledgement payload (an exception there ends the radio thread '
                     'silently: no more packets either way and no link error)',
              bounded='acknowledgement payload of %d bytes (0..4 and 32 enumerated), every byte value, every retry count, with and without an uplink '
                      'packet; two consecutive updates on one object; numpy replaced by a stub' % n)
    def k(c):
        stats_clock(c)
        np_stub(c)
        st = c.new(RLS + ':RadioLinkStatistics', c.ext('stats_cb'))
        pk = c.new(STK + ':CRTPPacket', 0x30, c.bytes('up', 1))
        out = pk if c.choice('uplink', [True, False]) else None
        for i in range(2):
            d = c.bytes('d%d' % i, n)
            c.int('retry%d' % i, 0, 15)
            # the loop only calls the hook for acknowledged transmissions
            ack = c.obj(ACK, ack=True, data=d, powerDet=False, retry=c.get('retry%d' % i))
            c.call((st, 'update'), ack, out)
            c.ensure('update-%d-returns' % i, 'raised is None')
    return k


for _n in (0, 1, 2, 3, 4, 32):
    _stats_update(_n)


# ------------------------------------------------------------------------- the whole driver: real statistics, pause / restart / close / reconnect

class Peer:
    """The assumed safelink peer of the module docstring behind a lossy radio, reusable over several radio threads.  Control state is
    concrete (one contract run = one path), payloads are symbolic.  A safelink request (ff 05 01) that reaches the peer resets its
    two bits (nRF51 firmware); `downs` are names of complete downlink packets (header + payload) in the spec namespace."""

    def __init__(self, c, downs=(), name=''):
        self.c, self.downs, self.name = c, list(downs), name
        self.exp_up = self.tag = self.offer = 0
        self.accepted = []          # names of the non-null uplink frames the peer took, in order
        self.requests = 0           # safelink requests that reached the peer

    def handle(self, frame, outcome):
        c = self.c
        if outcome == 'uplink-lost':
            return mk_ack(c, False, ())
        if outcome == 'no-status-not-sent':             # the dongle did not answer over USB (Crazyradio.send_packet gives None)
            return None
        c.let('frame', frame)
        if outcome == 'no-status-sent':                 # ... but the frame had gone out
            self.handle(frame, 'ack-lost')
            return None
        if c.concretize('len(frame) == 3 and frame[0] == 0xff and frame[1] == 0x05 and frame[2] == 0x01'):
            self.exp_up = self.tag = 0
            self.requests += 1
            return mk_ack(c, True, c.snapshot('good', 'bytes([0xff, 0x05, 0x01])')) if outcome == 'acked' else mk_ack(c, False, ())
        f_up = c.concretize('(frame[0] >> 3) & 1')
        f_down = c.concretize('(frame[0] >> 2) & 1')
        is_null = c.concretize('(frame[0] & 0xF3) == 0xF3')
        if self.offer < len(self.downs) and f_down != self.tag:
            self.offer += 1
            self.tag ^= 1
        if f_up == self.exp_up:
            self.exp_up ^= 1
            if not is_null:
                nm = '%sacc%d' % (self.name, len(self.accepted))
                c.snapshot(nm, 'tuple(frame)')
                self.accepted.append(nm)
        if outcome == 'ack-lost':
            return mk_ack(c, False, ())
        if self.offer < len(self.downs):
            d = self.downs[self.offer]
            nm = c.snapshot('%sackdata%d' % (self.name, self.offer), 'bytes([(%s[0] & 0xF3) | %d]) + %s[1:]' % (d, (self.exp_up << 3) | (self.tag << 2), d))
            return mk_ack(c, True, nm)
        return mk_ack(c, True, ())


def _real_statistics(n):
    @contract('C01', 'delivery.real-statistics.len%d' % n,
              [RD + ':_RadioDriverThread.run', RD + ':_RadioDriverThread._send_packet_safe', RD + ':RadioDriver.receive_packet',
               STK + ':CRTPPacket.set_header', STK + ':CRTPPacket._set_data'] + RLS_FUNCS,
              clause='every packet the Crazyflie queues for the host comes out of receive_packet exactly once and in order, and the loop goes on serving '
                     'the uplink afterwards, whatever the packet is: any port, channel and payload, also link-control packets of any length, with the '
                     'REAL link statistics running inside the radio loop',
              bounded='loss-free link, 4 transmissions after negotiation, two downlink packets of %d bytes each (1..4 and 32 enumerated) with every '
                      'byte value, one uplink packet (31-byte payload in the 32-byte case, else 2); numpy replaced by a stub' % n)
    def k(c):
        stats_clock(c)
        np_stub(c)
        c.bytes('D0', n), c.bytes('D1', n)
        # the uplink packet is built the way applications build it: empty packet, then port / channel / data
        up = c.new(STK + ':CRTPPacket')
        c.int('port', 0, 15), c.int('chan', 0, 3)
        c.require('not (port == 15 and chan == 3)')          # that header is the null packet of the link layer
        c.invoke((up, 'set_header'), c.get('port'), c.get('chan'))
        c.set(up, 'data', c.bytes('u0', 31 if n == 32 else 2))       # 31 bytes: the largest CRTP payload
        peer = Peer(c, ['D0', 'D1'])
        stop = c.raiser('StopLoop')
        drv = c.new(RD + ':RadioDriver')
        inq, outq = c.queue('inq'), c.queue('outq', maxsize=1)
        c.set(drv, 'in_queue', inq), c.set(drv, 'out_queue', outq)
        errs = c.ext('link_error')
        c.set(drv, 'link_error_callback', errs)
        st = {'t': 0}

        def send(_i, args, _k):
            t = st['t']
            st['t'] += 1
            if t > 4:
                return stop()
            if t == 1:
                c.invoke((drv, 'send_packet'), up)
            return peer.handle(args[0], 'acked')
        radio = c.ext('radio', returns={'send_packet': send})
        th = c.new(RD + ':_RadioDriverThread', radio, inq, outq, c.ext('stats_cb'), errs, drv, None)     # the real RadioLinkStatistics stays
        c.let('up', up)
        c.call((th, 'run'))
        c.ensure('loop-survives', "raised == 'StopLoop'")
        c.ensure('no-link-error', "len(sent('link_error')) == 0")
        c.let('na', len(peer.accepted))
        c.ensure('uplink-still-served', 'na == 1 and (acc0[0] & 0xF3) == (port << 4 | chan) and bytes(acc0[1:]) == u0')
        for j in range(2):
            c.call((drv, 'receive_packet'), 0)
            c.ensure('downlink-%d-exactly-once-in-order' % j, 'result is not None and result.port == (D%d[0] >> 4) and result.channel == (D%d[0] & 3) '
                     'and bytes(result.data) == D%d[1:]' % (j, j, j))
        c.call((drv, 'receive_packet'), 0)
        c.ensure('nothing-else-received', 'result is None')
    return k


for _n in (1, 2, 3, 4, 32):
    _real_statistics(_n)


JOIN = 'thread:_RadioDriverThread.join'
URI = 'radio://0/80/2M'


def app_blocked_until_thread_exit(c, n_before):
    """did the call the application just made (pause / close, from inside a radio transaction = while the radio thread is busy) wait for
    the radio thread?  Only an untimed Thread.join returns after the thread's run() has returned; a timed join (the transaction can
    take longer: the USB time-outs are 1 s each) or no join lets the application go on while the loop finishes its iteration."""
    c.let('n_joins_before', n_before)
    return bool(c.concretize("any(e[2].get('timeout') is None for e in sent('%s')[n_joins_before:])" % JOIN))


def connected_driver(c, radio, errs):
    """the real RadioDriver.connect() on a stubbed shared-radio instance; the thread is not started (c.virtual_time)"""
    c.patch(RD + ':RadioManager.open', c.ext('RadioManager.open', returns={'()': lambda *_a: radio}))
    drv = c.new(RD + ':RadioDriver')
    c.call((drv, 'connect'), URI, None, errs)
    return drv


def _pause_restart(pre_pause_claim):
    name = 'pause-restart.' + ('accepted-before-pause' if pre_pause_claim else 'accepted-after-pause')

    @contract('C01', name,
              [RD + ':RadioDriver.pause', RD + ':RadioDriver.restart', RD + ':_RadioDriverThread.stop', RD + ':RadioDriver.connect',
               RD + ':_RadioDriverThread.run', RD + ':RadioDriver.send_packet'],
              clause='every packet accepted by send_packet reaches the Crazyflie exactly once and in submission order, also across pause() / restart(): '
                     + ('a packet accepted BEFORE pause() is not lost by the pause' if pre_pause_claim else
                        'when pause() has returned the radio loop has stopped, so a packet accepted after that is not taken (and dropped) by the '
                        'stopping loop but is transmitted, once, by the restarted loop; no packet is ever delivered twice or out of order'),
              bounded='explicit schedule: pause() is called by the application during transmission 1 or 2 of the running loop (every outcome of that '
                      'transmission), the application goes on as soon as pause() lets it (an untimed join waits for the loop to end, anything else '
                      'does not), submits one packet, restarts, submits another; 3 transmissions after the restart with every outcome sequence',
              max_paths=20000, thorough_only=pre_pause_claim)
    def k(c):
        stats_clock(c, steps=(0.25,))
        np_stub(c)
        pk = [c.new(STK + ':CRTPPacket', 0x30 | i, c.bytes('u%d' % i, 2)) for i in range(3)]
        peer = Peer(c)
        stop = c.raiser('StopLoop')
        errs = c.ext('link_error')
        st = {'thread': 1, 't': 0, 'submitted': [], 'refused': 0, 'blocked': None, 'mark': None, 'queued': [], 'outcomes': {}}
        pause_at = c.choice('pause_during_transmission', [1, 2])
        early = True if pre_pause_claim else c.choice('packet_before_pause', [True, False])

        def submit(i):
            """the application hands over packet i when the hand-off queue has room (it would block otherwise)"""
            if i in st['submitted'] or int(c.concretize('drv.out_queue.qsize()')) != 0:
                return
            if c.invoke((drv, 'send_packet'), pk[i]) is not True:
                st['refused'] += 1
            st['submitted'].append(i)

        def pause_has_returned():
            st['mark'] = len(peer.accepted)
            if int(c.concretize('drv.out_queue.qsize()')) == 1:
                st['queued'] = [int(c.concretize('drv.out_queue.queue[0].header & 0x03'))]
            st['before'] = list(st['submitted'])
            submit(1)                       # the application believes the loop has stopped

        def send(_i, args, _k):
            c.let('frame', args[0])
            if c.concretize('len(frame) == 3 and frame[0] == 0xff and frame[1] == 0x05 and frame[2] == 0x01'):
                return peer.handle(args[0], 'acked')
            st['t'] += 1
            t = st['t']
            if st['thread'] == 1:
                if t > pause_at:
                    return stop()           # the loop went on transmitting after pause(): it never stopped
                if t == 1 and early:
                    submit(0)
                if t < pause_at:
                    return peer.handle(args[0], 'acked')
                outcome = c.choice('outcome_at_pause', OUTCOMES)
                n_before = int(c.concretize("len(sent('%s'))" % JOIN))
                c.invoke((drv, 'pause'))
                st['blocked'] = app_blocked_until_thread_exit(c, n_before)
                if not st['blocked']:
                    pause_has_returned()
                return peer.handle(args[0], outcome)
            if t > 3:
                return stop()
            submit(2)
            st['outcomes'][t] = c.choice('outcome_%d' % t, OUTCOMES)
            return peer.handle(args[0], st['outcomes'][t])
        radio = c.ext('radio', attrs={'version': 0.5}, returns={'send_packet': send})
        drv = connected_driver(c, radio, errs)
        c.let('drv', drv)
        c.ensure('connected', 'raised is None')
        th1 = c.getfield(drv, '_thread')
        c.let('th1', th1)
        c.call((th1, 'run'))
        c.ensure('loop-stops-after-pause', 'raised is None')
        if c.get('raised') is not None:
            return
        if st['blocked']:
            pause_has_returned()
        st['thread'], st['t'] = 2, 0
        c.call((drv, 'restart'))
        c.ensure('restarted', "raised is None and drv._thread is not None and not is_same(drv._thread, th1)")
        if c.get('raised') is not None or c.getfield(drv, '_thread') is None:
            return
        c.call((c.getfield(drv, '_thread'), 'run'))
        c.ensure('restarted-loop-runs', "raised == 'StopLoop'")
        c.let('refused', st['refused'])
        c.ensure('no-link-error-and-nothing-refused', "len(sent('link_error')) == 0 and refused == 0")
        # which packets did the Crazyflie take, in which order
        ids = []
        for nm in peer.accepted:
            ids.append(int(c.concretize('%s[0] & 0x03' % nm)))
            c.let('orig', pk[ids[-1]])
            c.ensure('accepted-frame-is-packet-%d' % ids[-1], '(%s[0] & 0xF3) == (orig.header & 0xF3) and bytes(%s[1:]) == bytes(orig.data)' % (nm, nm))
        c.let('ids', tuple(ids)), c.let('submitted', tuple(st['submitted']))
        c.ensure('exactly-once-in-submission-order', 'all(ids[i] < ids[i + 1] for i in range(len(ids) - 1)) and all(i in submitted for i in ids)')
        # what the restarted loop owes: it sends a null frame, then the pending packets in submission order, moving on at every
        # acknowledgement; a frame has reached the Crazyflie as soon as one of its transmissions was not lost on the way up.  Pending:
        # what waited in the hand-off queue when pause() returned and what was accepted after that
        in_hand = [i for i in st['before'] if i not in ids[:st['mark']] and i not in st['queued']] if pre_pause_claim else []
        pending = [None] + in_hand + st['queued'] + [i for i in st['submitted'] if i not in st['before']]
        owed, idx = [], 0
        for t in (1, 2, 3):
            o = st['outcomes'].get(t)
            if o is None or idx >= len(pending):
                break
            if o != 'uplink-lost' and pending[idx] is not None and pending[idx] not in owed:
                owed.append(pending[idx])
            if o == 'acked':
                idx += 1
        c.let('after', tuple(ids[st['mark']:])), c.let('owed', tuple(owed))
        c.ensure('packets-reach-the-crazyflie-after-restart', 'after == owed')
    return k


_pause_restart(False)
_pause_restart(True)       # thorough only


@contract('C01', 'close-reconnect',
          [RD + ':RadioDriver.close', RD + ':_RadioDriverThread.stop', RD + ':RadioDriver.connect', RD + ':_RadioDriverThread.run',
           RD + ':RadioDriver.send_packet', RD + ':RadioDriver.receive_packet'],
          clause='exactly once and in order also on the second use of a driver object: close() stops the radio loop (no transmission after the one in '
                 'progress) and closes its share of the dongle once; after connecting again the Crazyflie gets exactly the packets submitted on the new '
                 'connection and receive_packet returns exactly what the new peer queued - nothing left over from the closed connection goes out or '
                 'comes in',
          bounded='explicit schedule: close() is called by the application during transmission 2 of the first connection (every outcome), with one '
                  'packet still waiting in the hand-off queue and one received packet not yet read; loss-free second connection of 3 transmissions')
def close_reconnect(c):
    stats_clock(c, steps=(0.25,))
    np_stub(c)
    pk = [c.new(STK + ':CRTPPacket', 0x30 | i, c.bytes('u%d' % i, 2)) for i in range(3)]
    c.bytes('DA', 3), c.bytes('DB', 3)
    peers = [Peer(c, ['DA'], 'A'), Peer(c, ['DB'], 'B')]
    stop = c.raiser('StopLoop')
    st = {'conn': 0, 't': 0}

    def submit(i):
        c.invoke((c.get('drv'), 'send_packet'), pk[i])

    def send(_i, args, _k):
        peer = peers[st['conn']]
        c.let('frame', args[0])
        if c.concretize('len(frame) == 3 and frame[0] == 0xff and frame[1] == 0x05 and frame[2] == 0x01'):
            return peer.handle(args[0], 'acked')
        st['t'] += 1
        t = st['t']
        if st['conn'] == 0:
            if t > 2:
                return stop()               # the loop went on transmitting after close()
            if t == 1:
                submit(0)
                return peer.handle(args[0], 'acked')
            submit(1)
            c.invoke((c.get('drv'), 'close'))
            return peer.handle(args[0], c.choice('outcome_at_close', OUTCOMES))
        if t > 3:
            return stop()
        if t == 1:
            submit(2)
        return peer.handle(args[0], 'acked')
    radios = [c.ext('radioA', attrs={'version': 0.5}, returns={'send_packet': send}), c.ext('radioB', attrs={'version': 0.5}, returns={'send_packet': send})]
    opened = []

    def open_(*_a):
        opened.append(1)
        return radios[len(opened) - 1]
    c.patch(RD + ':RadioManager.open', c.ext('RadioManager.open', returns={'()': open_}))
    errs = c.ext('link_error')
    drv = c.new(RD + ':RadioDriver')
    c.let('drv', drv)
    c.call((drv, 'connect'), URI, None, errs)
    c.ensure('connected', 'raised is None')
    c.call((c.getfield(drv, '_thread'), 'run'))
    c.ensure('loop-stops-after-close', 'raised is None')
    c.ensure('share-of-the-dongle-closed-once', "len(sent('radioA.close')) == 1")
    if c.get('raised') is not None:
        return
    st['conn'], st['t'] = 1, 0
    c.call((drv, 'connect'), URI, None, errs)
    c.ensure('connected-again', 'raised is None')
    if c.get('raised') is not None:
        return
    c.call((c.getfield(drv, '_thread'), 'run'))
    c.ensure('second-loop-runs', "raised == 'StopLoop'")
    c.ensure('old-dongle-share-not-used-again', "len(sent('radioA.send_packet')) <= 3 and len(sent('radioB.send_packet')) == 5")
    c.let('nb', len(peers[1].accepted)), c.let('p2', pk[2])
    c.ensure('new-peer-gets-exactly-the-new-packet', 'nb == 1 and (Bacc0[0] & 0xF3) == (p2.header & 0xF3) and bytes(Bacc0[1:]) == bytes(p2.data)')
    c.call((drv, 'receive_packet'), 0)
    c.ensure('first-received-is-the-new-peers-packet', 'result is not None and result.port == (DB[0] >> 4) and result.channel == (DB[0] & 3) and bytes(result.data) == DB[1:]')
    c.call((drv, 'receive_packet'), 0)
    c.ensure('nothing-else-received', 'result is None')
    c.ensure('no-link-error', "len(sent('link_error')) == 0")


# ------------------------------------------------------------------------- several links on one dongle, down to the USB requests

def _usb_state_before(tr, i):
    """indices of the last channel / address / data-rate vendor requests before trace position i (None: never requested)"""
    last = {0x01: None, 0x02: None, 0x03: None}
    for j, e in enumerate(tr[:i]):
        if e[0] == 'handle.ctrl_transfer' and e[1][1] in last:
            last[e[1][1]] = j
    return last[0x01], last[0x02], last[0x03]


def _shared_full_stack(other):
    @contract('C01', 'shared_radio.full-stack.' + other,
              [RD + ':_SharedRadioInstance.send_packet', RD + ':_SharedRadioInstance.set_arc', RD + ':_SharedRadioInstance.scan_selected',
               RD + ':_SharedRadioInstance.scan_channels', RD + ':_SharedRadio.run', CR + ':Crazyradio.set_channel', CR + ':Crazyradio.set_address',
               CR + ':Crazyradio.set_data_rate', CR + ':Crazyradio.set_arc', CR + ':Crazyradio.send_packet', CR + ':Crazyradio.scan_channels',
               CR + ':Crazyradio.scan_selected', CR + ':_send_vendor_setup'],
              clause='every frame of a link reaches ITS Crazyflie and the acknowledgement comes back to that link: when the frame is written to the dongle '
                     'the dongle has been given the channel, address and data rate of the sending link (whatever another link on the same dongle did in '
                     'between: %s), the call returns the acknowledgement decoded from the dongle reply to that very frame, and the command of the '
                     'other link is answered to the other link only' % other,
              bounded='two links (symbolic settings) on one dongle; history: link A sends, link B does %s, link A sends; the shared radio thread serves '
                      'each command as soon as it is queued' % other)
    def k(c):
        c.patch(CR + ':usb', c.ext('usb', attrs={'TYPE_VENDOR': 0x40}))
        c.patch(CR + ':Crazyradio._log_packet', c.ext('log_packet'))
        replies = [c.bytes('rx0', 3), c.bytes('rx1', 3), c.bytes('rx2', 3)]
        c.require('rx0[0] != 0 and rx1[0] != 0 and rx2[0] != 0')
        last = 2 if other == 'send_packet' else 1         # which reply answers link A's second frame
        frames = [c.bytes('f0', 3), c.bytes('f1', 3)]
        st = {'reads': 0, 'a_reads': []}

        def read(*_a):
            st['reads'] += 1
            if st.get('scanning'):
                return c.snapshot('noack', 'bytes([0])')
            st['a_reads'].append(st['reads'])
            return replies[len(st['a_reads']) - 1]
        handle = c.ext('handle', returns={'read': read})
        dongle = c.obj(CR + ':Crazyradio', handle=handle, devid=0, current_address=None, current_channel=None, current_datarate=None, arc=3)
        realq = c.queue('cmdq')
        rq = [c.queue('rspA'), c.queue('rspB')]
        shared = c.obj(RD + ':_SharedRadio', _radio=dongle, _devid=0, _cmd_queue=realq, _rsp_queues=c.dict([(0, rq[0]), (1, rq[1])]),
                       _next_instance_id=2, _lock=c.lock('sem'))

        def put(_i, args, _k):
            realq.items.append(args[0]) if hasattr(realq, 'items') else realq.put(args[0])
            c.invoke_catch((shared, 'run'))         # the shared radio thread serves the command, then waits for the next one
        cmdq = c.ext('cmd_queue', returns={'put': put})
        inst = []
        for i, nm in enumerate('AB'):
            x = c.new(RD + ':_SharedRadioInstance', i, cmdq, rq[i], 0.5)
            c.int('ch' + nm, 0, 125), c.int('dr' + nm, 0, 2)
            addr = c.ints('ad' + nm, 5, 0, 255, kind='tuple')
            c.call((x, 'set_channel'), c.get('ch' + nm)), c.call((x, 'set_data_rate'), c.get('dr' + nm)), c.call((x, 'set_address'), addr)
            inst.append(x)
        c.reset_trace()
        c.call((inst[0], 'send_packet'), frames[0])
        c.let('r0', c.get('result'))
        c.ensure('first-send-returns', 'raised is None')
        st['scanning'] = other != 'send_packet'
        if other == 'send_packet':
            fb = c.bytes('fB', 3)
            c.call((inst[1], 'send_packet'), fb)
            c.let('rB', c.get('result'))
            c.ensure('other-link-gets-the-reply-to-its-own-frame', 'raised is None and rB.ack == ((rx1[0] & 1) == 1) and bytes(rB.data) == rx1[1:]')
        elif other == 'set_arc':
            c.int('arc', 0, 15)
            c.call((inst[1], 'set_arc'), c.get('arc'))
            c.ensure('set_arc-returns-nothing', 'raised is None and result is None')
        elif other == 'scan_channels':
            c.int('start', 0, 124)
            c.call((inst[1], 'scan_channels'), c.get('start'), c.snapshot('stop', 'start + 1'), (0xFF,))
            c.ensure('scan-answered-to-the-scanning-link', 'raised is None and tuple(result) == ()')
        else:
            c.int('s1', 0, 125), c.int('r1', 0, 2)
            c.call((inst[1], 'scan_selected'), (c.dict([('channel', c.get('s1')), ('datarate', c.get('r1'))]),), (0xFF, 0xFF, 0xFF))
            c.ensure('scan-answered-to-the-scanning-link', 'raised is None and tuple(result) == ()')
        st['scanning'] = False
        c.call((inst[0], 'send_packet'), frames[1])
        c.let('r1_', c.get('result'))
        c.ensure('second-send-returns', 'raised is None')
        c.let('rq', tuple(rq))
        c.ensure('no-answer-left-over-for-anybody', 'rq[0].qsize() == 0 and rq[1].qsize() == 0')
        for j, (r, x) in enumerate((('r0', 0), ('r1_', last))):
            c.ensure('ack-%d-is-the-reply-to-that-frame' % j, '%s.ack == ((rx%d[0] & 1) == 1) and bytes(%s.data) == rx%d[1:]' % (r, x, r, x))
        tr = c.get('trace') or ()
        writes = [i for i, e in enumerate(tr) if e[0] == 'handle.write']
        c.let('n_writes', len(writes))
        c.ensure('one-write-per-frame', 'n_writes == %d' % (2 + {'set_arc': 0, 'scan_channels': 2, 'scan_selected': 1, 'send_packet': 1}[other]))
        checks = [('0', writes[0] if writes else None, 'f0', 'A'), ('1', writes[-1] if writes else None, 'f1', 'A')]
        if other == 'send_packet' and len(writes) == 3:
            checks.append(('of-the-other-link', writes[1], 'fB', 'B'))
        for j, w, f, who in checks:
            if w is None:
                continue
            ich, iad, idr = _usb_state_before(tr, w)
            c.ensure('frame-%s-written' % j, "trace[%d][2]['data'] == %s" % (w, f))
            if None in (ich, iad, idr):
                c.ensure('dongle-was-configured-before-frame-%s' % j, 'False')
                continue
            c.ensure('frame-%s-goes-out-with-the-settings-of-its-link' % j, "trace[%d][2]['wValue'] == ch%s and tuple(trace[%d][2]['data_or_wLength']) == tuple(ad%s) "
                     "and trace[%d][2]['wValue'] == dr%s" % (ich, who, iad, who, idr, who))
    return k


for _o in ('send_packet', 'set_arc', 'scan_channels', 'scan_selected'):
    _shared_full_stack(_o)


@contract('C01', 'radio_manager.shared-dongle',
          [RD + ':RadioManager.open', RD + ':_SharedRadio.__init__', RD + ':_SharedRadio.open_instance', RD + ':_SharedRadioInstance.close',
           RD + ':_SharedRadioInstance.send_packet', RD + ':_SharedRadio.run'],
          clause='links opened on the same dongle number share ONE dongle object and one radio thread but never a response queue; when the last link is '
                 'closed the dongle is released once, and a link opened after that gets a freshly opened dongle through which its frames go out and its '
                 'acknowledgements come back (state surviving a reconnect)',
          bounded='history on dongle 0: open A, open B, close A, close B, open C, C sends one frame')
def radio_manager(c):
    c.virtual_time()
    ack = mk_ack(c, True, c.bytes('a0', 2))
    made = []

    def make(*_a):
        made.append(c.ext('dongle%d' % (len(made) + 1), attrs={'version': 0.5}, returns={'send_packet': ack}))
        return made[-1]
    c.patch(RD + ':Crazyradio', c.ext('Crazyradio', returns={'()': make}))
    locks = []

    def sem(*_a):
        locks.append(c.lock('sem%d' % len(locks)))
        return locks[-1]
    c.patch(RD + ':Semaphore', c.ext('Semaphore', returns={'()': sem}))
    queues = []

    def mkq(*_a):
        queues.append(c.queue('q%d' % len(queues)))       # sequential queue model in both back ends: waiting for ever is reported at once
        return queues[-1]
    c.patch(RD + ':Queue', c.ext('Queue', returns={'()': mkq}))
    c.patch(RD + ':RadioManager._radios', c.list([]))
    c.patch(RD + ':RadioManager._lock', c.lock('manager_lock'))
    a = c.call(RD + ':RadioManager.open', 0)
    c.ensure('first-open', 'raised is None')
    b = c.call(RD + ':RadioManager.open', 0)
    c.ensure('second-open', 'raised is None')
    c.let('a', a), c.let('b', b)
    c.let('n_made', len(made))
    c.ensure('one-dongle-object-for-both-links', "n_made == 1 and is_same(a._cmd_queue, b._cmd_queue) and len(sent('thread:_SharedRadio.start')) == 1")
    c.ensure('own-response-queues', 'a._instance_id != b._instance_id and not is_same(a._rsp_queue, b._rsp_queue)')
    c.snapshot('shared', "sent('thread:_SharedRadio.start')[0][1][0]")
    shared = c.get('shared')
    c.call((a, 'close'))
    c.call((b, 'close'))
    c.call((shared, 'run'))
    c.ensure('radio-thread-served-both-closes', "raised == 'Deadlock' and len(shared._rsp_queues) == 0")
    c.ensure('dongle-released-once', "len(sent('dongle1.close')) == 1")
    cc = c.call(RD + ':RadioManager.open', 0)
    c.ensure('third-open', 'raised is None')
    c.let('cc', cc), c.let('n_made', len(made))
    c.ensure('fresh-dongle-for-the-new-link', 'n_made == 2')
    c.ensure('new-link-is-served-by-the-same-radio-thread', "is_same(cc._cmd_queue, a._cmd_queue) and len(sent('thread:_SharedRadio.start')) == 1")
    frame = c.bytes('f', 3)
    c.call((cc, 'send_packet'), frame)
    c.ensure('link-waits-for-its-answer', "raised == 'Deadlock'")
    c.call((shared, 'run'))
    c.let('ack', ack), c.let('frame', frame)
    c.ensure('frame-goes-out-through-the-fresh-dongle', "len(sent('dongle2.send_packet')) == 1 and sent('dongle2.send_packet')[0][1][0] == frame and len(sent('dongle1.send_packet')) == 0")
    c.ensure('answer-reaches-the-new-link', 'cc._rsp_queue.qsize() == 1 and is_same(cc._rsp_queue.queue[0], ack)')
    c.ensure('locks-released', 'not manager_lock.locked() and not sem0.locked()')


def _packet_views(n):
    @contract('C01', 'received-packet.views.len%d' % n, [STK + ':CRTPPacket.__init__', STK + ':CRTPPacket._get_data_l', STK + ':CRTPPacket._get_data_t',
                                                        STK + ':CRTPPacket._get_data'],
              clause='the packet that comes out of receive_packet is the packet the Crazyflie queued: built the way the radio loop builds it from an '
                     'acknowledgement payload, its port, channel and every view of its data (data, datal, datat) are those of the payload',
              bounded='payload of %d bytes after the header (0, 1, 3 and 31 enumerated), every byte value' % n)
    def k(c):
        c.int('h', 0, 255)
        p = c.bytes('p', n)
        pk = c.new(STK + ':CRTPPacket', c.get('h'), c.snapshot('payload', 'list(p)'))
        c.let('pk', pk)
        c.ensure('port-and-channel', 'pk.port == (h >> 4) and pk.channel == (h & 3)')
        c.ensure('data-views', 'bytes(pk.data) == p and pk.datat == tuple(p) and pk.datal == list(p) and len(pk.datat) == %d' % n)
    return k


for _n in (0, 1, 3, 31):
    _packet_views(_n)


@contract('C01', 'receive_packet.modes', [RD + ':RadioDriver.receive_packet'],
          clause='every packet the radio loop queued comes out of receive_packet exactly once and in order, in each of its three modes (no wait, wait for '
                 'ever, wait with a time-out); an empty queue gives None (or blocks, in the wait-for-ever mode) and never a packet a second time',
          bounded='two queued packets, three calls; one mode per call sequence')
def receive_modes(c):
    mode = c.choice('wait', [0, -1, 'positive'])
    wait = c.float('w', finite=True) if mode == 'positive' else mode
    if mode == 'positive':
        c.require('w > 0.0 and w < 10.0')
    drv = c.new(RD + ':RadioDriver')
    a, b = c.new(STK + ':CRTPPacket', 0x50, c.bytes('a', 1)), c.new(STK + ':CRTPPacket', 0x51, c.bytes('b', 1))
    inq = c.queue('inq', [a, b])
    c.set(drv, 'in_queue', inq)
    c.let('a', a), c.let('b', b), c.let('inq', inq)
    c.call((drv, 'receive_packet'), wait)
    c.ensure('first-out-first', 'raised is None and is_same(result, a)')
    c.call((drv, 'receive_packet'), wait)
    c.ensure('then-the-second', 'raised is None and is_same(result, b) and inq.qsize() == 0')
    c.call((drv, 'receive_packet'), wait)
    if mode == -1:
        c.ensure('waits-for-the-next-packet', "raised == 'Deadlock'")
    else:
        c.ensure('nothing-twice', 'raised is None and result is None')


@contract('C01', 'link_statistics.long-run', RLS_FUNCS,
          clause='the loop keeps delivering for as long as the link is up: the statistics hook still returns normally after more acknowledgements than its '
                 'sliding window holds (an exception there ends the radio thread silently)',
          bounded='105 consecutive acknowledgements (window: 100) without payload and 5 with a 3-byte payload, symbolic retry counts; numpy replaced by a stub')
def stats_long_run(c):
    stats_clock(c, steps=(0.25,), n=2000)
    np_stub(c)
    st = c.new(RLS + ':RadioLinkStatistics', c.ext('stats_cb'))
    c.int('retry', 0, 15)
    c.bytes('d', 3)
    c.require('d[0] == 0xf3 and d[1] == 0x01')
    ok = True
    for i in range(110):
        ack = c.obj(ACK, ack=True, data=(c.get('d') if i >= 105 else ()), powerDet=False, retry=c.get('retry'))
        c.call((st, 'update'), ack, None)
        if c.get('raised') is not None:
            ok = False
            break
    c.let('all_returned', ok), c.let('st', st)
    c.ensure('every-update-returns', 'all_returned')
    c.ensure('window-is-bounded', 'len(st._retries) <= 100')


@contract('C01', 'restart.running-loop-is-kept', [RD + ':RadioDriver.restart', RD + ':RadioDriver.connect'],
          clause='exactly once: there is never a second radio loop on the same link (two loops would each run their own alternating bits over the same '
                 'queues) - restart() on a driver whose loop is running changes nothing')
def restart_running(c):
    stats_clock(c, steps=(0.25,))
    radio = c.ext('radio', attrs={'version': 0.5})
    drv = connected_driver(c, radio, c.ext('link_error'))
    c.require('raised is None')
    th1 = c.getfield(drv, '_thread')
    c.let('drv', drv), c.let('th1', th1)
    c.call((drv, 'restart'))
    c.ensure('same-loop', 'raised is None and is_same(drv._thread, th1)')
    c.ensure('no-second-thread-started', "len(sent('thread:_RadioDriverThread.start')) == 1")


@contract('C01', 'radio_manager.open-fails',
          [RD + ':RadioManager.open', RD + ':_SharedRadio.__init__', RD + ':_SharedRadio.open_instance'],
          clause='a failed attempt to open the dongle leaves no lock behind: the next connection attempt is served (it gets its dongle, its own queue) '
                 'instead of blocking for ever',
          bounded='history: open fails because the dongle cannot be opened, open again succeeds')
def radio_manager_fails(c):
    c.virtual_time()
    made = []

    def make(*_a):
        made.append(1)
        if len(made) == 1:
            return c.raiser('Exception', 'Cannot find a Crazyradio Dongle')()
        return c.ext('dongle%d' % len(made), attrs={'version': 0.5})
    c.patch(RD + ':Crazyradio', c.ext('Crazyradio', returns={'()': make}))
    locks, queues = [], []

    def sem(*_a):
        locks.append(c.lock('sem%d' % len(locks)))
        return locks[-1]

    def mkq(*_a):
        queues.append(c.queue('q%d' % len(queues)))
        return queues[-1]
    c.patch(RD + ':Semaphore', c.ext('Semaphore', returns={'()': sem}))
    c.patch(RD + ':Queue', c.ext('Queue', returns={'()': mkq}))
    c.patch(RD + ':RadioManager._radios', c.list([]))
    c.patch(RD + ':RadioManager._lock', c.lock('manager_lock'))
    c.call(RD + ':RadioManager.open', 0)
    c.ensure('failure-is-reported', "raised == 'Exception'")
    c.ensure('manager-lock-released', 'not manager_lock.locked()')
    a = c.call(RD + ':RadioManager.open', 0)
    c.let('a', a)
    c.ensure('next-open-is-served', 'raised is None and a is not None and a._rsp_queue is not None')
    c.let('locks', tuple(locks))
    c.ensure('locks-released', 'not manager_lock.locked() and all(not l.locked() for l in locks)')


OUTCOMES5 = OUTCOMES + ['no-status-not-sent', 'no-status-sent']


def _delivery_no_status(K, n_up, n_down):
    @contract('C01', 'delivery.no-status.K%d.up%d.down%d' % (K, n_up, n_down),
              [RD + ':_RadioDriverThread.run', RD + ':_RadioDriverThread._send_packet_safe', RD + ':RadioDriver.send_packet', RD + ':RadioDriver.receive_packet'],
              clause='exactly once and in order in both directions whatever pattern of lost transmissions and lost acknowledgements occurs, also when the '
                     'dongle reports no status at all for a transmission (USB time-out: the frame may or may not have gone out) - the same frame is '
                     'then transmitted again with the same bits',
              bounded='%d transmissions after negotiation, every outcome sequence over %s and every submission schedule; %d uplink / %d downlink '
                      'packets with symbolic payloads' % (K, OUTCOMES5, n_up, n_down), max_paths=400000, thorough_only=(K > 3))
    def k(c):
        ups = [c.new(STK + ':CRTPPacket', 0x30 | i, c.bytes('u%d' % i, 2)) for i in range(n_up)]
        for j in range(n_down):
            c.bytes('D%d' % j, 3)
        peer = Peer(c, ['D%d' % j for j in range(n_down)])
        stop = c.raiser('StopLoop')
        drv = c.new(RD + ':RadioDriver')
        inq, outq = c.queue('inq'), c.queue('outq', maxsize=1)
        c.set(drv, 'in_queue', inq), c.set(drv, 'out_queue', outq)
        errs = c.ext('link_error')
        c.set(drv, 'link_error_callback', errs)
        st = {'t': 0, 'submitted': 0, 'waiting': [], 'in_flight': None, 'owed': []}

        def send(_i, args, _k):
            t = st['t']
            st['t'] += 1
            if t == 0:
                return peer.handle(args[0], 'acked')
            if t > K:
                return stop()
            if st['submitted'] < n_up and len(outq.items) == 0 and c.choice('submit_at_%d' % t, [False, True]):
                c.invoke((drv, 'send_packet'), ups[st['submitted']])
                st['waiting'].append(st['submitted'])
                st['submitted'] += 1
            o = c.choice('outcome_%d' % t, OUTCOMES5)
            # reference: the frame in flight reaches the Crazyflie with its first transmission that is not lost on the way up; the loop
            # moves on to what waits in the hand-off queue (or a null frame) when, and only when, it sees an acknowledgement
            if o not in ('uplink-lost', 'no-status-not-sent') and st['in_flight'] is not None and st['in_flight'] not in st['owed']:
                st['owed'].append(st['in_flight'])
            if o == 'acked':
                st['in_flight'] = st['waiting'].pop(0) if st['waiting'] else None
            return peer.handle(args[0], o)
        radio = c.ext('radio', returns={'send_packet': send})
        th = c.new(RD + ':_RadioDriverThread', radio, inq, outq, None, errs, drv, None)
        c.set(th, '_radio_link_statistics', c.ext('stats'))
        c.call((th, 'run'))
        c.ensure('loop-survives', "raised == 'StopLoop'")
        c.ensure('no-link-error', "len(sent('link_error')) == 0")
        na = len(peer.accepted)
        c.let('na', na), c.let('submitted', st['submitted'])
        c.ensure('accepted-is-prefix-of-submitted', 'na <= submitted and submitted - na <= 2')
        c.let('owed', len(st['owed']))
        c.ensure('every-frame-not-lost-on-the-way-up-has-reached-the-crazyflie', 'na == owed')
        for i in range(min(na, n_up)):
            c.let('up_i', ups[i])
            c.ensure('uplink-%d-exactly-once-in-order' % i, "(acc%d[0] & 0xF3) == (up_i.header & 0xF3) and bytes(acc%d[1:]) == bytes(up_i.data)" % (i, i))
        got = 0
        for j in range(n_down + 1):
            c.call((drv, 'receive_packet'), 0)
            if c.get('result') is None:
                break
            got += 1
            if j < n_down:
                c.ensure('downlink-%d-exactly-once-in-order' % j, 'result.port == (D%d[0] >> 4) and result.channel == (D%d[0] & 3) and bytes(result.data) == D%d[1:]' % (j, j, j))
        c.let('n_rx', got), c.let('offer', peer.offer)
        c.ensure('received-count-matches-peer-progress', 'offer <= n_rx <= min(offer + 1, %d)' % n_down)
    return k


_delivery_no_status(3, 2, 2)
_delivery_no_status(4, 2, 2)     # thorough only


# ------------------------------------------------------------------------- induction over the service loop: any number of transmissions and packets

def _pay(k):
    """payload of the k-th packet of a direction, as a spec expression: its number (mod 65536)"""
    return 'bytes([(%s) %% 256, ((%s) // 256) %% 256])' % (k, k)


def _service_loop_roles(fnode):
    """Find the service loop of run() and the locals that play a role in the invariant by what they are USED for, not by their names
    (a renamed local or a moved line must not break the contract): the frame handed to _send_packet_safe, the time-out handed to
    out_queue.get, the counters (targets of `+= constant`); every other local assigned in the loop is set before it is read."""
    import ast
    loop = next(n for n in ast.walk(fnode) if isinstance(n, ast.While))
    frame = wait = None
    counters, assigned = set(), set()
    for n in ast.walk(loop):
        if isinstance(n, ast.Call) and isinstance(n.func, ast.Attribute):
            if n.func.attr == '_send_packet_safe' and len(n.args) == 2 and isinstance(n.args[1], ast.Name):
                frame = n.args[1].id
            if n.func.attr == 'get' and 'out_queue' in ast.unparse(n.func.value) and len(n.args) == 2 and isinstance(n.args[1], ast.Name):
                wait = n.args[1].id
        if isinstance(n, ast.AugAssign) and isinstance(n.target, ast.Name) and isinstance(n.value, ast.Constant):
            counters.add(n.target.id)
        if isinstance(n, ast.Name) and isinstance(n.ctx, ast.Store):
            assigned.add(n.id)
        if isinstance(n, ast.ExceptHandler) and n.name:
            assigned.add(n.name)
        if isinstance(n, ast.Import):
            assigned.update((a.asname or a.name).split('.')[0] for a in n.names)
    if frame is None or wait is None:
        raise RuntimeError('service loop of run(): frame / time-out locals not found')
    return loop.lineno, frame, wait, sorted(counters - {frame, wait}), sorted(assigned)


@contract('C01', 'delivery.inductive',
          [RD + ':_RadioDriverThread.run', RD + ':_RadioDriverThread._send_packet_safe', RD + ':RadioDriver.send_packet', RD + ':set_retries_before_disconnect'],
          clause='for ANY number of transmissions and packets: an inductive invariant of the service loop and the assumed safelink peer says that the peer '
                 'has taken exactly the first A submitted packets, in order (A = submitted - waiting in the hand-off queue - the one in flight unless '
                 'already taken), that the host has queued exactly the first R downlink packets, in order (R = confirmed by the peer, + 1 if the current '
                 'one is received but not yet confirmed), and that the loss counter is the configured number N (symbolic) minus the current run of '
                 'unacknowledged transmissions, a link error being reported in an iteration iff that run reaches exactly N.  Obligations: the '
                 'invariant holds when the loop is entered after a confirmed negotiation, and ONE iteration from ANY state satisfying it - with any '
                 'outcome in %s, the application submitting or not, the Crazyflie queueing more or not - re-establishes it' % OUTCOMES,
          max_paths=20000)
def delivery_inductive(c):
    sym = c.backend == 'sym'
    c.int('N', 1, 100000)
    c.invoke(RD + ':set_retries_before_disconnect', c.get('N'))
    c.int('Q', 0, 3)                                    # downlink packets the Crazyflie has queued at start (more may follow at any time)
    for nm in ('S', 'A', 'E', 'G', 'J', 'L', 'R0'):     # ghost state: submitted, accepted, peer up bit, peer tag, confirmed, loss run, received before
        c.let(nm, 0)
    c.let('ok', True), c.let('expect_report', False)
    stop = c.raiser('StopLoop')
    drv = c.new(RD + ':RadioDriver')
    inq, outq = c.queue('inq'), c.queue('outq', maxsize=1)
    c.set(drv, 'in_queue', inq), c.set(drv, 'out_queue', outq)
    errs = c.ext('link_error')
    c.set(drv, 'link_error_callback', errs)
    st = {'tx': 0}

    def new_packet(k):
        return c.new(STK + ':CRTPPacket', 0x30, c.snapshot('new_payload', _pay(k)))

    def lost():
        c.snapshot('L', 'L + 1')
        c.snapshot('expect_report', 'L == N')
        return mk_ack(c, False, ())

    def send(_i, args, _k):
        c.let('frame', args[0])
        if c.concretize('len(frame) == 3 and frame[0] == 0xff and frame[1] == 0x05 and frame[2] == 0x01'):
            return mk_ack(c, True, c.snapshot('good', 'bytes([0xff, 0x05, 0x01])'))
        st['tx'] += 1
        if st['tx'] > (1 if sym else 8):
            return stop()                               # symbolic: one arbitrary iteration; native: a bounded concrete run from the start
        c.let('expect_report', False)
        if int(c.concretize('drv.out_queue.qsize()')) == 0 and c.choice('submit', [False, True]):
            c.invoke((drv, 'send_packet'), new_packet('S'))
            c.snapshot('S', 'S + 1')
        c.int('crazyflie_queues_more', 0, 1)
        c.snapshot('Q', 'Q + crazyflie_queues_more')
        o = c.choice('outcome', OUTCOMES)
        if o == 'uplink-lost':
            return lost()
        # the peer's step (module docstring), on symbolic bits: no case split
        c.snapshot('moves_on', 'J < Q and ((frame[0] >> 2) & 1) != G')
        c.snapshot('J', 'J + (1 if moves_on else 0)'), c.snapshot('G', '(1 - G) if moves_on else G')
        c.snapshot('takes', '((frame[0] >> 3) & 1) == E')
        c.snapshot('takes_packet', 'takes and (frame[0] & 0xF3) != 0xF3')
        c.snapshot('E', '(1 - E) if takes else E')
        if int(c.concretize('len(frame)')) == 3:
            c.snapshot('ok', 'ok and (not takes_packet or ((frame[0] & 0xF3) == 0x30 and bytes(frame[1:]) == %s))' % _pay('A'))
        else:
            c.snapshot('ok', 'ok and not takes_packet')
        c.snapshot('A', 'A + (1 if takes_packet else 0)')
        if o == 'ack-lost':
            return lost()
        c.let('L', 0)
        if c.concretize('J < Q'):
            return mk_ack(c, True, c.snapshot('ackdata', 'bytes([0x50 | (E << 3) | (G << 2)]) + ' + _pay('J')))
        return mk_ack(c, True, ())
    radio = c.ext('radio', returns={'send_packet': send})
    th = c.new(RD + ':_RadioDriverThread', radio, inq, outq, None, errs, drv, None)
    c.set(th, '_radio_link_statistics', c.ext('stats'))
    c.let('drv', drv), c.let('th', th)
    if sym:
        from pyvc.values import PBytearray
        lineno, FRAME, WAIT, counters, assigned = _service_loop_roles(c.I.resolve(RD + ':_RadioDriverThread.run').node)
        inflight = 'S - self._out_queue.qsize() - 1'
        invariant = [
            '0 <= self._curr_up <= 1 and 0 <= self._curr_down <= 1 and 0 <= E <= 1 and 0 <= G <= 1',
            '0 <= A and 0 <= J <= Q and 0 <= R0 and 0 <= L and 0 <= S and self._has_safelink is True',
            # the frame in flight: a null frame, or the packet number S - waiting - 1
            '(len(FRAME) == 1 and (FRAME[0] & 0xF3) == 0xF3) or (len(FRAME) == 3 and (FRAME[0] & 0xF3) == 0x30 and %s >= 0 and bytes(FRAME[1:]) == %s)' % (inflight, _pay(inflight)),
            # what waits in the hand-off queue is the last packet submitted
            'self._out_queue.qsize() == 0 or (self._out_queue.qsize() == 1 and S >= 1 and (self._out_queue.queue[0].header & 0xF3) == 0x30 and '
            'bytes(self._out_queue.queue[0].data) == %s)' % _pay('S - 1'),
            # uplink: every frame the peer took was the next packet in order, and it has taken all but the ones still on the host side
            'ok',
            'A == S - self._out_queue.qsize() - (1 if (len(FRAME) == 3 and self._curr_up == E) else 0)',
            # downlink: received = confirmed by the peer (+ 1 while the confirmation is on its way), in order
            'R0 + self._in_queue.qsize() == J + (0 if self._curr_down == G else 1) and (self._curr_down == G or J < Q)',
            'all(self._in_queue.queue[i].port == 5 and self._in_queue.queue[i].channel == 0 and bytes(self._in_queue.queue[i].data) == %s '
            'for i in range(self._in_queue.qsize()))' % _pay('R0 + i'),
            # link error: exactly at the N-th consecutive unacknowledged transmission
            'self._retry_before_disconnect == N - L',
            "len(sent('link_error')) == (1 if expect_report else 0)",
            'WAIT == 0 or WAIT == 0.01',
        ]
        import re
        invariant = [re.sub(r'\bFRAME\b', FRAME, re.sub(r'\bWAIT\b', WAIT, x)) for x in invariant]

        def havoc(I, fr):
            for nm in ('S', 'A', 'J', 'L', 'R0', 'Q'):
                c.ns[nm] = I.fresh_int(nm, 0)
            c.ns['E'], c.ns['G'] = I.fresh_int('E', 0, 1), I.fresh_int('G', 0, 1)
            c.ns['ok'], c.ns['expect_report'] = True, False
            del I.trace[:]
            c.set(th, '_curr_up', I.fresh_int('up', 0, 1)), c.set(th, '_curr_down', I.fresh_int('down', 0, 1))
            c.set(th, '_retry_before_disconnect', I.fresh_int('retry'))
            for nm in assigned:
                fr.vars[nm] = None                      # set in every iteration before it is read
            for nm in counters:
                fr.vars[nm] = I.fresh_int(nm)
            fr.vars[WAIT] = I.fresh_float(WAIT)
            n = c.choice('frame_in_flight', [1, 3])
            fr.vars[FRAME] = PBytearray([I.fresh_int(FRAME, 0, 255) for _ in range(n)])
            del inq.items[:]
            del outq.items[:]
            if c.choice('packet_waiting', [False, True]):
                outq.items.append(new_packet('S - 1'))
        c.loop_invariant(RD + ':_RadioDriverThread.run', lineno, invariant, havoc, assigned)
    c.call((th, 'run'))
    c.invoke(RD + ':set_retries_before_disconnect', 100)
    # the native back end (and a symbolic path that leaves the loop) sees the end of a concrete run from the start: same ghost bookkeeping
    c.ensure('run-ends-by-the-script', "raised == 'StopLoop'")
    c.ensure('every-taken-frame-was-the-next-packet', 'ok')
    c.ensure('taken-all-but-those-on-the-host-side', 'S - 2 <= A <= S')
    c.ensure('received-in-step-with-the-peer', 'J <= R0 + drv.in_queue.qsize() <= J + 1')


@contract('C01', 'crazyradio.init', [CR + ':Crazyradio.__init__', CR + ':Crazyradio.set_power', CR + ':Crazyradio.set_arc', CR + ':Crazyradio.set_ard_bytes',
                                     CR + ':Crazyradio.set_cont_carrier', CR + ':Crazyradio.set_ack_enable', CR + ':Crazyradio.set_address',
                                     CR + ':_send_vendor_setup'],
          clause='an acknowledgement means what the radio loop takes it to mean only if the dongle was opened with acknowledgements enabled, carrier test '
                 'mode off and payload-carrying acks (32 bytes); after opening, the settings the driver believes the dongle has (its cache) are the '
                 'ones it requested, so that the first frame of a link goes out with that link\'s settings',
          bounded='firmware version 0.53 or 0.3 (symbolic choice); the USB device is a stub')
def crazyradio_init(c):
    c.patch(CR + ':usb', c.ext('usb', attrs={'TYPE_VENDOR': 0x40}))
    c.patch(CR + ':platform', c.ext('platform', returns={'system': 'Linux'}))
    new = c.choice('firmware', [0x0053, 0x0030])
    dev = c.ext('dev', attrs={'bcdDevice': new})
    radio = c.new(CR + ':Crazyradio', dev)
    c.let('radio', radio)
    c.ensure('opened', 'radio is not None')
    c.snapshot('req', "tuple((e[1][1], e[2]['wValue'], e[2]['data_or_wLength']) for e in sent('dev.ctrl_transfer'))")
    c.ensure('cache-is-what-was-requested', 'radio.current_channel == [r[1] for r in req if r[0] == 0x01][-1] and '
             'radio.current_datarate == [r[1] for r in req if r[0] == 0x03][-1]')
    if new >= 0x0040:
        c.ensure('acks-enabled-last', '[r[1] for r in req if r[0] == 0x10][-1] == 1')
        c.ensure('carrier-test-off', '[r[1] for r in req if r[0] == 0x20][-1] == 0')
        c.ensure('ack-payload-enabled', '[r[1] for r in req if r[0] == 0x05][-1] == (0x80 | 32)')
        c.ensure('address-cache', 'tuple(radio.current_address) == tuple([r[2] for r in req if r[0] == 0x02][-1])')
        c.ensure('arc-known', 'radio.arc == [r[1] for r in req if r[0] == 0x06][-1]')


@contract('C01', 'no-safelink.frames-untouched', [RD + ':_RadioDriverThread.run', RD + ':RadioDriver.send_packet'],
          clause='safelink is used only if the peer confirmed it during link start-up: after ten unconfirmed requests the frames go to the dongle exactly '
                 'as submitted (header bits 2 and 3 as the packet has them, no alternating bits), a later echo of the request in the downlink does '
                 'not switch safelink on, and the upper layer keeps doing its own retries',
          bounded='peer that acknowledges everything without ever confirming; 3 transmissions after the ten requests, one uplink packet; the second '
                  'acknowledgement carries the bytes ff 05 01')
def no_safelink(c):
    stop = c.raiser('StopLoop')
    up = c.new(STK + ':CRTPPacket', 0x30, c.bytes('u0', 2))
    drv = c.new(RD + ':RadioDriver')
    inq, outq = c.queue('inq'), c.queue('outq', maxsize=1)
    c.set(drv, 'in_queue', inq), c.set(drv, 'out_queue', outq)
    st = {'t': 0}

    def send(_i, args, _k):
        st['t'] += 1
        t = st['t'] - 10
        if t <= 0:
            return mk_ack(c, True, ())
        if t > 3:
            return stop()
        c.let('frame', args[0])
        c.snapshot('tx%d' % t, 'bytes(frame)')
        if t == 1:
            c.invoke((drv, 'send_packet'), up)
        return mk_ack(c, True, c.snapshot('echo', 'bytes([0xff, 0x05, 0x01])') if t == 2 else ())
    radio = c.ext('radio', returns={'send_packet': send})
    th = c.new(RD + ':_RadioDriverThread', radio, inq, outq, None, c.ext('link_error'), drv, None)
    c.set(th, '_radio_link_statistics', c.ext('stats'))
    c.let('th', th), c.let('drv', drv), c.let('up', up)
    c.call((th, 'run'))
    c.ensure('loop-runs', "raised == 'StopLoop'")
    c.ensure('never-confirmed-never-used', 'th._has_safelink is False and drv.needs_resending is True')
    c.ensure('null-frame-untouched', 'tx1 == bytes([0xFF]) and tx3 == bytes([0xFF])')
    c.ensure('packet-frame-untouched', 'tx2 == bytes([up.header]) + bytes(up.data) and (tx2[0] & 0x0C) == 0x0C')


@contract('C01', 'delivery.after-idle',
          [RD + ':_RadioDriverThread.run', RD + ':_RadioDriverThread._send_packet_safe', RD + ':RadioDriver.send_packet', RD + ':RadioDriver.receive_packet'],
          clause='exactly once and in order also when the link has been idle for a long time (the loop then polls more slowly): packets submitted and '
                 'packets queued by the Crazyflie after more than ten empty exchanges are delivered once each, in order',
          bounded='loss-free link; 13 empty exchanges, then two uplink packets and, two transmissions later, two downlink packets (symbolic payloads) within 6 transmissions')
def after_idle(c):
    ups = [c.new(STK + ':CRTPPacket', 0x30 | i, c.bytes('u%d' % i, 2)) for i in range(2)]
    c.bytes('D0', 3), c.bytes('D1', 3)
    peer = Peer(c, [])
    stop = c.raiser('StopLoop')
    drv = c.new(RD + ':RadioDriver')
    inq, outq = c.queue('inq'), c.queue('outq', maxsize=1)
    c.set(drv, 'in_queue', inq), c.set(drv, 'out_queue', outq)
    errs = c.ext('link_error')
    c.set(drv, 'link_error_callback', errs)
    st = {'t': 0, 'submitted': 0}

    def send(_i, args, _k):
        t = st['t']
        st['t'] += 1
        if t > 19:
            return stop()
        if t == 16:
            peer.downs.extend(['D0', 'D1'])         # the Crazyflie has something to say again, later than the application
        if t >= 14 and st['submitted'] < 2 and len(outq.items) == 0:
            c.invoke((drv, 'send_packet'), ups[st['submitted']])
            st['submitted'] += 1
        return peer.handle(args[0], 'acked')
    radio = c.ext('radio', returns={'send_packet': send})
    th = c.new(RD + ':_RadioDriverThread', radio, inq, outq, None, errs, drv, None)
    c.set(th, '_radio_link_statistics', c.ext('stats'))
    c.call((th, 'run'))
    c.ensure('loop-survives', "raised == 'StopLoop'")
    c.let('na', len(peer.accepted)), c.let('ups', tuple(ups))
    c.ensure('both-uplink-packets-once-in-order', 'na == 2 and all((a[0] & 0xF3) == (p.header & 0xF3) and bytes(a[1:]) == bytes(p.data) for a, p in ((acc0, ups[0]), (acc1, ups[1])))'
             if len(peer.accepted) == 2 else 'na == 2')
    for j in range(2):
        c.call((drv, 'receive_packet'), 0)
        c.ensure('downlink-%d-once-in-order' % j, 'result is not None and result.port == (D%d[0] >> 4) and result.channel == (D%d[0] & 3) and bytes(result.data) == D%d[1:]' % (j, j, j))
    c.call((drv, 'receive_packet'), 0)
    c.ensure('nothing-else-received', 'result is None')
    c.ensure('no-link-error', "len(sent('link_error')) == 0")


@contract('C01', 'delivery.empty-payload',
          [RD + ':_RadioDriverThread.run', RD + ':_RadioDriverThread._send_packet_safe', RD + ':RadioDriver.send_packet', STK + ':CRTPPacket.__init__'],
          clause='every packet accepted by send_packet reaches the Crazyflie exactly once and in order - also a packet that consists of its header only '
                 '(empty payload): it is transmitted as a one-byte frame, not replaced by a keep-alive',
          bounded='loss-free link, 6 transmissions; a header-only packet (any port / channel except the null header) followed by a one-byte packet')
def delivery_empty_payload(c):
    c.int('h0', 0, 255)
    c.require('(h0 & 0xF3) != 0xF3')                     # 0xFx with channel 3 is the null packet by definition
    ups = [c.new(STK + ':CRTPPacket', c.get('h0'), c.bytes('u0', 0)), c.new(STK + ':CRTPPacket', 0x31, c.bytes('u1', 1))]
    peer = Peer(c, [])
    stop = c.raiser('StopLoop')
    drv = c.new(RD + ':RadioDriver')
    inq, outq = c.queue('inq'), c.queue('outq', maxsize=1)
    c.set(drv, 'in_queue', inq), c.set(drv, 'out_queue', outq)
    errs = c.ext('link_error')
    c.set(drv, 'link_error_callback', errs)
    st = {'t': 0, 'submitted': 0}

    def send(_i, args, _k):
        t = st['t']
        st['t'] += 1
        if t > 5:
            return stop()
        if st['submitted'] < 2 and len(outq.items) == 0:
            c.invoke((drv, 'send_packet'), ups[st['submitted']])
            st['submitted'] += 1
        return peer.handle(args[0], 'acked')
    radio = c.ext('radio', returns={'send_packet': send})
    th = c.new(RD + ':_RadioDriverThread', radio, inq, outq, None, errs, drv, None)
    c.set(th, '_radio_link_statistics', c.ext('stats'))
    c.call((th, 'run'))
    c.ensure('loop-survives', "raised == 'StopLoop'")
    c.let('na', len(peer.accepted)), c.let('ups', tuple(ups))
    c.ensure('both-packets-once-in-order-header-only-first',
             'na == 2 and len(acc0) == 1 and (acc0[0] & 0xF3) == (ups[0].header & 0xF3) and (acc1[0] & 0xF3) == (ups[1].header & 0xF3) and bytes(acc1[1:]) == bytes(ups[1].data)'
             if len(peer.accepted) == 2 else 'na == 2')
    c.ensure('no-link-error', "len(sent('link_error')) == 0")
