#!/bin/bash
# copies finished round-2 changes from /tmp/seeded2/<id>/{m1,m2} to /verif/seeded/<id>-{m3,m4}
cd "$(dirname "$0")/.."
for d in /tmp/seeded2/C*; do
  id=$(basename $d)
  for pair in m1:m3 m2:m4; do
    src=${pair%%:*}; dst=${pair##*:}
    if [ -f $d/$src/patch.diff ] && [ -f $d/$src/demo.py ] && [ -f $d/$src/meta.json ] && [ ! -d seeded/$id-$dst ]; then
      mkdir -p seeded/$id-$dst && cp $d/$src/* seeded/$id-$dst/ && echo "imported $id-$dst"
    fi
  done
done
