#!/usr/bin/env python3
"""writes tools/tasks/extend_<id>.md: the brief for a sub-agent that extends the contracts of one property
(functions of the anchor files no check has interpreted yet come from evidence/*.json `functions_interpreted`)"""
import glob
import json
import os
import sys
sys.path.insert(0, os.path.dirname(os.path.abspath(__file__)))
V = os.path.join(os.path.dirname(os.path.abspath(__file__)), '..')
props = {json.loads(l)['id']: json.loads(l) for l in open(os.path.join(V, 'properties.jsonl'))}
interpreted = set()
for f in glob.glob(os.path.join(V, 'evidence', '*.json')):
    interpreted.update(json.load(open(f))['coverage'].get('functions_interpreted', []))
import ast


def functions_of(path):
    mod = path[:-3].replace('/', '.')
    if mod.endswith('.__init__'):
        mod = mod[:-9]
    out = []

    def walk(node, prefix):
        for ch in ast.iter_child_nodes(node):
            if isinstance(ch, (ast.FunctionDef, ast.AsyncFunctionDef)):
                out.append(('%s:%s%s' % (mod, prefix, ch.name), '%s:%s%s' % (path, prefix, ch.name)))
                walk(ch, prefix + ch.name + '.')
            elif isinstance(ch, ast.ClassDef):
                walk(ch, prefix + ch.name + '.')
    walk(ast.parse(open(os.path.join('/repo', path)).read()), '')
    return out


T = open(os.path.join(V, 'tools', 'tasks', 'EXTEND_TEMPLATE.md')).read()
for pid in sys.argv[1:]:
    p = props[pid]
    look = [shown for path in p['anchors']['files'] for f, shown in functions_of(path) if f not in interpreted]
    missed = []
    import re
    mt = open(os.path.join(V, 'seeded', 'MATRIX.txt')).read().splitlines()
    caught = set(m.group(1) for m in (re.match(r'(C\d+-m\d+): check=\S+ exit=1 ', l) for l in mt) if m)
    allm = set(m.group(1) for m in (re.match(r'(C\d+-m\d+): ', l) for l in mt) if m)
    for mid in sorted(allm - caught):
        if mid.startswith(pid + '-'):
            meta = json.load(open(os.path.join(V, 'seeded', mid, 'meta.json')))
            missed.append(' * /verif/seeded/%s (patch.diff, demo.py, meta.json): %s  NEEDS: %s' % (mid, meta['summary'], meta['needs_to_manifest']))
    known = [k for k in json.load(open(os.path.join(V, 'known_findings.json')))['known'] if k['property'] == pid]
    text = T.replace('{ID}', pid).replace('{TITLE}', p['title']).replace('{STATEMENT}', p['statement']) \
        .replace('{QUANT}', p['quantifier']['text']).replace('{FILES}', ', '.join('/repo/' + f for f in p['anchors']['files'])) \
        .replace('{LOOK}', '\n'.join(' * ' + f for f in look) or ' * (none)') \
        .replace('{MISSED}', '\n'.join(missed) or ' * (none at the moment)') \
        .replace('{KNOWN}', '\n'.join(' * %s / %s: %s' % (k['contract'], k['obligation'], k['what'][:200]) for k in known) or ' * (none)')
    open(os.path.join(V, 'tools', 'tasks', 'extend_%s.md' % pid), 'w').write(text)
    print(pid, len(look))
