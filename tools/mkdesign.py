#!/usr/bin/env python3
"""Assembles DESIGN.md from its parts (head + built status + matrix + original plan)."""
import os
R = os.path.dirname(os.path.dirname(os.path.abspath(__file__)))
parts = os.path.join(R, 'design_parts')
head = open(os.path.join(parts, 'head.md')).read()
mid = open(os.path.join(parts, 'mid.md')).read()
plan = open(os.path.join(parts, 'plan.md')).read()
appa = open(os.path.join(parts, 'appendix_a.md')).read()
mpath = os.path.join(R, 'seeded', 'MATRIX.txt')
rows = []
if os.path.exists(mpath):
    for l in open(mpath):
        l = l.strip()
        if not l:
            continue
        rows.append('    ' + l)
matrix = '\n'.join(rows) if rows else '    (matrix not yet produced)'
mid = mid.replace('MATRIX_PLACEHOLDER', matrix)
plan = plan.replace('## 5. Per property', '## Appendix P — the per-property plan written before the build (design round)\n\n'
                    'Kept for reference; where it differs from section 5 the build decided otherwise.')
open(os.path.join(R, 'DESIGN.md'), 'w').write(head + mid + '\n' + plan + '\n' + appa)
print('DESIGN.md written', len(head) + len(mid) + len(plan) + len(appa))
