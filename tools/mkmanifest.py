#!/usr/bin/env python3
"""Regenerates /verif/MANIFEST.json from the table below (kept in one place so that it stays valid)."""
import json
import os

ROOT = os.path.dirname(os.path.dirname(os.path.abspath(__file__)))

TECH = ('contract-based deductive verification: sidecar contracts on the real functions, weakest-precondition style '
        'symbolic execution of the real AST (pyvc), obligations discharged by z3 / cvc5, counterexamples replayed natively')

CLAIMED = {
    'C08': ('proof', 'Every sender is executed symbolically for all argument values (floats as IEEE binary64 terms, ints '
            'unbounded, every protocol version) and its packet compared with the firmware layout table in contracts/C08.py; '
            'range errors must raise and send nothing; the header byte is proved lossless for all ports/channels.',
            'Firmware wire layouts in contracts/C08.py are my transcription (trusted); compress_quaternion is replaced by its '
            'contract (uninterpreted, range 0..2^32-1) inside send_full_state_setpoint; lh-persist id lists are bounded to '
            'length <= 3; pyvc interpreter and solvers trusted, sampled by per-path native concordance.', '5 C08'),
    'C13': ('proof', 'fp16 decoding is proved equal to z3\'s IEEE binary16->binary64 conversion for all 65536 patterns (all paths '
            'of the real function incl. the normalisation loop, bit-vector lowering with interval-checked widths).',
            'Only the half-precision clause is decided so far; other codecs pending. struct model assumes little-endian host.', '5 C13'),
}

CLAIMED.update({
    'C04': ('proof', 'Real Crazyflie/Param/_ParamUpdater objects driven through histories: set_value encoding proved for all values of the 10 '
            'numeric types (V1/V2), refusal and range-error paths, one-request-on-the-wire discipline with release only by the own reply, '
            'cache/get_value/callbacks after replies, attribution of misc replies with three requests outstanding.',
            'Sequential model of queue.Queue / Lock (thread interleavings of callers not explored); histories are bounded (three requests); '
            'one recorded known finding (stale READ reply answering a WRITE).', '5 C04'),
    'C06': ('proof', 'Histories of real Memory.read/write calls against a device model in the contract, for symbolic addresses, ids and '
            'contents: exact data, one notification, protocol limits, duplicated/stale/error replies, link drop, re-entrant callbacks, '
            'queued writes in order, nothing left behind.',
            'Transfer lengths are enumerated around the 20/25-byte chunk boundaries (bounded, stated per contract); peer model assumed; '
            'duplicated ack carrying the start address of the next queued write is indistinguishable (protocol).', '5 C06'),
    'C07': ('proof', 'The real dispatcher loop is run on scripted packets: match predicate proved for all 256 headers and all registrations; '
            'snapshot delivery order under every combination of add/remove/raise actions of three callbacks; removal; Caller.call.',
            'Registrations from other threads during dispatch only as one explicit schedule (a request registered while the answer patterns are '
            'scanned); callbacks raise only Exception subclasses; three registrations (bounded).', '5 C07'),
    'C10': ('proof', 'send_packet timer/transmit rules, retry while pending, no retransmission after the answer, longest-prefix cancellation, '
            'close/reopen histories (old-session timers transmit nothing) on a real Crazyflie with a recording Timer.',
            'Real-time clause (retransmitted at the timeout interval) and timer/reply races are not decidable here; Timer fires at most once.', '5 C10'),
    'C11': ('proof', 'Encoder/decoder field identity, fetch/insert file discipline on a modelled file system (symbolic checksums), truncated / '
            'damaged / foreign-version files are misses, read-only directory never written, fetcher uses the cache only under the announced CRC.',
            'json/open/glob/os dependency contracts D1-D6 stated in contracts/C11.py (sampled natively on every path); tables of <= 2 entries; '
            'two recorded known findings (log/param checksum collision).', '5 C11'),
    'C14': ('proof', 'EEPROM, 1-wire, lighthouse (memory and YAML), parameter YAML, deck-info, loco anchor, Poly4D and LED-timing images: layouts, '
            'round trips at binary32, valid iff checksum/CRC, single-byte EEPROM corruption detected.',
            'crc32 uninterpreted symbolically (real natively); PyYAML round trip assumed; string lengths / element orders enumerated; firmware '
            'layouts transcribed in contracts/C14.py; three recorded known findings.', '5 C14'),
    'C17': ('proof', 'MotionCommander / PositionHlCommander primitives in real arithmetic: velocity*duration = displacement, landing always ends '
            'with thread stop, stop set-point and priority release (or hl.land, sleep, hl.stop), dead-reckoned position, _SetPointThread.run on '
            'scripted events.',
            'float mode R (machine arithmetic treated as mathematical); sequential thread model (join returns after run); sessions of <= 2 '
            'primitives; one recorded known finding (PositionHlCommander.land below the landing height).', '5 C17'),
    'C19': ('proof', 'Swarm sequential/parallel/parallel_safe/open_links/close_links for swarm sizes 0..3: every schedule of atomic thread '
            'bodies between start() and join(), every failing subset; once-per-member, argument wiring, raise-iff, close-all-on-failure.',
            'Thread bodies are atomic (no pre-emption inside an action); swarm sizes <= 3; list.append atomic.', '5 C19'),
})

CLAIMED.update({
    'C01': ('proof', 'The real radio thread (negotiation + service loop) and RadioDriver.send/receive run against a safelink peer model for every '
            'outcome sequence (acked / uplink lost / ack lost) and submission schedule up to a bounded number of transmissions; the one-step '
            '_send_packet_safe contract is proved for all inputs; link-error reporting at exactly the N-th consecutive loss.',
            'Peer (nRF51 safelink) model is an assumed contract written in contracts/C01.py; the delivery clause is proved for any number of '
            'transmissions by an inductive invariant of the radio loop (delivery.inductive) and additionally explored exhaustively for 4 '
            '(quick) / 5-6 (thorough) transmissions; application/radio thread concurrency only through the assumed FIFO queue and explicit '
            'schedules; one recorded known finding (pause() loses an accepted packet).', '5 C01'),
    'C20': ('proof', 'RadioDriver.parse_uri proved for every well-formed shape with symbolic characters (dongle 1-9 digits, channel 1-3 digits, '
            'three rates or none, address 0-10 hex digits of either case, rate_limit), serial-number dongles, scan round trip, connect '
            'settings, scheme disjointness of the six drivers, get_link_driver selection, open_link never lets an exception escape.',
            'Partial models of urlparse/parse_qs/re/unhexlify for symbolic strings in pyvc/models_uri.py (validated natively per path); '
            'rate_limit digits bounded; hardware classes stubbed; two recorded known findings (lenient radio URI grammar).', '5 C20'),
})

CLAIMED.update({
    'C02': ('proof', 'Sequential fragment of the lifecycle: a real Crazyflie is connected to a device simulator through the real dispatcher; event '
            'order, connected/fully_connected conditions, link failure or close after every k-th exchanged packet, nothing delivered after the '
            'first disconnected, reconnect on the same object (also from a connection_lost callback), driver lookup failures, SyncCrazyflie '
            'open/close return or raise.',
            'NOT claimed: bounded-time disconnect, freedom from deadlock / dead threads under real interleavings (threads are sequential '
            'models; one explicit schedule per contract where stated: stale retry timers firing in the next attempt, link lost while the '
            'updater waits); device simulator with empty log table and 1-2 parameters.', '5 C02'),
    'C03': ('proof', 'TocFetcher inductive step for any table size / index up to 65535 (V2) and 255 (V1), ignore-step for every other packet, '
            'element decoders for every name split and type code, whole downloads with duplicated / stale / repeated-info replies, lookup '
            'agreement, log/param refresh incl. extended-type markers.',
            'Device answers well-formed entries with valid type codes and unique names; history tables have 0..3 entries (sizes beyond are '
            'covered by the inductive step contracts); one recorded known finding (extended-type reply matched without command byte).', '5 C03'),
    'C05': ('proof', 'add_config acceptance iff, V2 create/append enumeration for 0..26 variables, limits, acknowledgement-driven flags for any '
            'command/status, log data decoding for all types, re-add after reconnect, SyncLogger sessions.',
            'List lengths enumerated (0..26, complete for one packet); variable types concrete per path; sequential queue; three recorded known '
            'findings (raw-memory variables, flags not reset across sessions, SyncLogger queue reuse).', '5 C05'),
    'C16': ('proof', 'Decidable fragment: scaler applies one factor to every translation, shares rotations, modifies no input (incl. the numpy arrays '
            'inside poses); scale factor identities; deck sensor diagonal constant; aligner applies ONE transformation to all base stations; '
            'de-flip algebra; isometry defect term.',
            'float mode R; small numpy model (pyvc/numpy_model.py); least-squares convergence of _find_transformation and scipy Rotation are '
            'external and NOT proved; they are covered only by ONE bounded native check (align.end-to-end.sampled: 1500 quick / 20000 thorough '
            'seeded in-envelope alignments on the real solver), reported under bounded_checks and never counted as proved.', '5 C16'),
    'C18': ('proof', 'CPX header codec for all 65536 header values and all enum combinations; _readData / readPacket proved by loop invariant for '
            'every payload length and every fragmentation; exhaustive short-stream reassembly; per-function routing; CRTP tunnel both '
            'directions for all headers and payload lengths 0..30; UART transport frame / limit / clear-to-send / round trip for payload '
            'lengths 0, 1, 30, 98.',
            'Socket model (recv returns a non-empty prefix) and CPX header layout assumed; little-endian host for the native H code; router '
            'and receiver threads sequential.', '5 C18'),
})

CLAIMED.update({
    'C12': ('proof', 'upload_buffer framing (every byte once, frames <= 31 bytes), write_flash retry/abort for every pattern of lost / stray / '
            'negative replies over the 6 attempts, _internal_flash against the contracts of both (refusal before anything is sent, pages in '
            'range and below the flash size, exact page content) and end-to-end on a ghost target.',
            'upload_buffer and the page loop of _internal_flash are ALSO proved by loop invariant for any buffer / image length (page size '
            'enumerated, mode R for int(a/b)); the remaining contracts enumerate lengths / geometries (bounded, stated per contract); '
            'peer load-buffer / write-flash semantics assumed; little-endian host.', '5 C12'),
})

NOT_APPLICABLE = {
    'C09': 'convergence/accuracy of an external iterative least-squares solver on vectorised floating-point numpy code; no '
           'contract within reach of the available verifiers expresses or decides it (DESIGN.md section 5 C09)',
    'C15': 'transcendental floating-point identities through math/numpy/scipy; only an unstable nonlinear-real sliver is '
           'expressible, claiming it would misrepresent the property (DESIGN.md section 5 C15)',
}


def _summary():
    out = {}
    for line in open(os.path.join(ROOT, 'design_parts', 'head.md')):
        cells = [c.strip() for c in line.strip().strip('|').split('|')]
        if len(cells) == 5 and cells[0][:1] == 'C' and cells[0][1:].isdigit() and cells[1] in ('yes', 'fragment'):
            out[cells[0]] = (cells[2].replace('`', ''), cells[3], cells[4])
    return out


SUMMARY = _summary()
NOTE_OVERRIDE = {
    'C13': 'struct model assumes a little-endian host; quaternion compression is decided for enumerated directions x a symbolic scale and for every '
           'word on the decompression side, the binary64 numpy arithmetic of compress_quaternion additionally by a bounded native check (not '
           'counted as proved); LED and trajectory list lengths enumerated.',
}


def main():
    props = [json.loads(l)['id'] for l in open(os.path.join(ROOT, 'properties.jsonl'))]
    checks = []
    for pid in props:
        if pid in CLAIMED and os.path.exists(os.path.join(ROOT, 'contracts', pid + '.py')):
            lvl, text, note, ref = CLAIMED[pid]
            note = NOTE_OVERRIDE.get(pid, note)
            if pid in SUMMARY:      # the summary table of DESIGN.md (design_parts/head.md) is the current description
                what, bounded, verdict = SUMMARY[pid]
                text = 'Under contract: %s.  (Earlier description, still valid: %s)' % (what, text) if pid not in NOTE_OVERRIDE else \
                    'Under contract: %s.' % what
                note = '%s  Bounded parts: %s.  Current tree: %s (known_findings.json).' % (note, bounded, verdict)
            checks.append({
                'property_id': pid,
                'quick_cmd': './vcheck %s quick' % pid,
                'thorough_cmd': './vcheck %s thorough' % pid,
                'evidence_file': 'evidence/%s.json' % pid,
                'replay_cmd_template': './vcheck %s --replay {path}' % pid,
                'engine': 'pyvc',
                'level_claimed': {'category': lvl, 'text': text, 'design_ref': 'DESIGN.md section ' + ref},
                'level_note': note,
                'technique': TECH,
            })
    na = []
    for pid in props:
        if pid in [c['property_id'] for c in checks]:
            continue
        na.append({'property_id': pid, 'reason': NOT_APPLICABLE.get(pid, 'contracts for this property are not finished yet; not claimed')})
    m = {
        'version': 1,
        'setup_cmd': 'python3-vt -c "import z3" && /usr/bin/cvc5 --version >/dev/null && /venv/bin/python -c "import struct"',
        'hooks': {'guard': 'CFLIB_VERIF', 'enable': 'no hooks: contracts are sidecar files under /verif/contracts, nothing in /repo is instrumented',
                  'baseline_off_cmd': 'cd /repo && /venv/bin/python -m pytest -ra -q -p no:cacheprovider --timeout=900 --continue-on-collection-errors',
                  'source_commits': [], 'add_only': True},
        'engines': [{'name': 'pyvc', 'path': 'pyvc/', 'serves_properties': [c['property_id'] for c in checks],
                     'kind_free_text': 'AST->SMT verification-condition generator / symbolic executor for the real Python source, '
                                       'z3 + cvc5 back ends, native replay driver'}],
        'checks': checks,
        'notes': 'See DESIGN.md. Exit codes of every check: 0 held, 1 violation (replayed), 2 undecided, 3 engine error.',
        'not_applicable': na,
    }
    json.dump(m, open(os.path.join(ROOT, 'MANIFEST.json'), 'w'), indent=1)
    print('claimed:', [c['property_id'] for c in checks])


if __name__ == '__main__':
    main()
