#!/bin/bash
# Runs every claimed check (quick tier unless $1 = thorough) on the current /repo tree and prints one line each.
cd "$(dirname "$0")/.."
tier=${1:-quick}
ids=$(python3 -c "import json;print(' '.join(c['property_id'] for c in json.load(open('MANIFEST.json'))['checks']))")
rc=0
for id in $ids; do
  out=$(./vcheck $id $tier 2>&1); e=$?
  echo "$out" | grep -E "^(VIOLATION|ENGINE-ERROR|UNDECIDED)" | cut -c1-300 | head -5
  echo "$out" | tail -1 | cut -c1-260
  [ $e -ne 0 ] && rc=1
done
exit $rc
