#!/usr/bin/env python3
"""Prepares a round of seeded-change tasks for independent sub-agents.

usage: tools/mk_seed_tasks.py <out_dir> <worktree_dir> [ids...]
For every claimed property: a scratch worktree <worktree_dir>/<id> of /repo HEAD and <out_dir>/<id>/TASK.md holding ONLY the
property text, the anchor files, a list of functions to look at first (functions of the anchor files whose body no check
has interpreted so far - read from evidence/*.json `functions_interpreted`) and one-sentence summaries of the changes already
taken (so that the new ones differ).  Nothing else from /verif is given to the agents."""
import ast
import glob
import json
import os
import subprocess
import sys

V = os.path.join(os.path.dirname(os.path.abspath(__file__)), '..')
out_dir, wt_dir = sys.argv[1], sys.argv[2]
props = {json.loads(l)['id']: json.loads(l) for l in open(os.path.join(V, 'properties.jsonl'))}
claimed = [c['property_id'] for c in json.load(open(os.path.join(V, 'MANIFEST.json')))['checks']]
ids = sys.argv[3:] or claimed

interpreted = set()
for f in glob.glob(os.path.join(V, 'evidence', '*.json')):
    interpreted.update(json.load(open(f))['coverage'].get('functions_interpreted', []))


def functions_of(path):
    mod = path[:-3].replace('/', '.')
    if mod.endswith('.__init__'):
        mod = mod[:-9]
    out = []

    def walk(node, prefix):
        for ch in ast.iter_child_nodes(node):
            if isinstance(ch, (ast.FunctionDef, ast.AsyncFunctionDef)):
                out.append(('%s:%s%s' % (mod, prefix, ch.name), '%s:%s%s' % (path, prefix, ch.name)))
                walk(ch, prefix + ch.name + '.')
            elif isinstance(ch, ast.ClassDef):
                walk(ch, prefix + ch.name + '.')
    try:
        walk(ast.parse(open(os.path.join('/repo', path)).read()), '')
    except (OSError, SyntaxError):
        pass
    return out


TEMPLATE = open(os.path.join(V, 'tools', 'seed_task_template.md')).read()
for pid in ids:
    p = props[pid]
    wt = os.path.join(wt_dir, pid)
    od = os.path.join(out_dir, pid)
    os.makedirs(od, exist_ok=True)
    if not os.path.isdir(wt):
        os.makedirs(wt_dir, exist_ok=True)
        subprocess.check_call(['git', '-C', '/repo', 'worktree', 'add', '--detach', wt, 'HEAD', '-q'])
    files = p['anchors']['files']
    look = [shown for path in files for f, shown in functions_of(path) if f not in interpreted]
    taken = []
    for d in sorted(glob.glob(os.path.join(V, 'seeded', pid + '-m*'))):
        taken.append(json.load(open(os.path.join(d, 'meta.json')))['summary'])
    text = TEMPLATE.replace('{ID}', pid).replace('{WT}', wt).replace('{OUT}', od).replace('{TITLE}', p['title']) \
        .replace('{STATEMENT}', p['statement']).replace('{QUANT}', p['quantifier']['text']).replace('{FILES}', ', '.join(files)) \
        .replace('{LOOK}', '\n'.join(' * ' + f for f in look) or ' * (every function of these files has been looked at; choose freely)') \
        .replace('{TAKEN}', '\n'.join(' * ' + t for t in taken))
    open(os.path.join(od, 'TASK.md'), 'w').write(text)
    print(pid, 'functions to look at first: %d, already taken: %d' % (len(look), len(taken)))
