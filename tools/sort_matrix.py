#!/usr/bin/env python3
"""keeps the latest line per (seeded change, check) in seeded/MATRIX.txt, sorted; prints the changes no check caught"""
import os
import re
p = os.path.join(os.path.dirname(os.path.abspath(__file__)), '..', 'seeded', 'MATRIX.txt')
last = {}
for line in open(p).read().splitlines():
    m = re.match(r'(C\d+-m\d+): check=(C\d+)', line)
    last[(m.group(1), m.group(2)) if m else line] = line


def key(k):
    if isinstance(k, tuple):
        a = re.match(r'C(\d+)-m(\d+)', k[0])
        return (int(a.group(1)), int(a.group(2)), k[1])
    return (999, 0, k)


open(p, 'w').write('\n'.join(last[k] for k in sorted(last, key=key)) + '\n')
ids = set(k[0] for k in last if isinstance(k, tuple))
caught = set(k[0] for k, line in last.items() if isinstance(k, tuple) and ' exit=1 ' in line)
print('%d seeded changes, %d caught by at least one check; missed: %s' % (len(ids), len(caught), sorted(ids - caught)))
