#!/bin/bash
# tools/import_round.sh <srcdir> <a> <b>: copies finished changes <srcdir>/<id>/{m1,m2} to /verif/seeded/<id>-{<a>,<b>}
cd "$(dirname "$0")/.."
src=$1; a=$2; b=$3
for d in $src/C*; do
  id=$(basename $d)
  for pair in m1:$a m2:$b; do
    s=${pair%%:*}; t=${pair##*:}
    if [ -f $d/$s/patch.diff ] && [ -f $d/$s/demo.py ] && [ -f $d/$s/meta.json ] && [ ! -d seeded/$id-$t ]; then
      mkdir -p seeded/$id-$t && cp $d/$s/* seeded/$id-$t/ && echo "imported $id-$t"
    fi
  done
done
