#!/bin/bash
# Confirm every seeded change: applies to a scratch worktree of /repo HEAD, unit tests unchanged,
# demo fails with the change and passes without.  Usage: tools/confirm_seeded.sh [ids...]
set -u
cd /verif
ids=${@:-$(ls seeded)}
WT=$(mktemp -d /tmp/confirm-wt.XXXXXX)
git -C /repo worktree add --detach "$WT" HEAD -q || exit 3
base=$(cd "$WT" && PYTHONPATH="$WT" /venv/bin/python -m pytest -q -p no:cacheprovider --timeout=900 test 2>&1 | tail -1)
echo "baseline: $base"
for id in $ids; do
  d=/verif/seeded/$id
  [ -f "$d/patch.diff" ] || continue
  (cd "$WT" && PYTHONPATH="$WT" timeout 120 /venv/bin/python "$d/demo.py" >/dev/null 2>&1); clean=$?
  if ! git -C "$WT" apply "$d/patch.diff" 2>/dev/null; then echo "$id: PATCH-DOES-NOT-APPLY"; continue; fi
  t=$(cd "$WT" && PYTHONPATH="$WT" /venv/bin/python -m pytest -q -p no:cacheprovider --timeout=900 test 2>&1 | tail -1)
  (cd "$WT" && PYTHONPATH="$WT" timeout 120 /venv/bin/python "$d/demo.py" >/dev/null 2>&1); mut=$?
  git -C "$WT" checkout -q -- . ; git -C "$WT" clean -fdq
  echo "$id: demo_clean_exit=$clean demo_mutant_exit=$mut tests_with_change=[$t]"
done
git -C /repo worktree remove --force "$WT"
