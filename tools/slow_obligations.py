#!/usr/bin/env python3
"""Lists obligations that needed the cvc5 fallback or more than N seconds: candidates for verdicts that could flip under load."""
import multiprocessing as mp
import os
import sys
sys.path.insert(0, os.path.dirname(os.path.dirname(os.path.abspath(__file__))))
from pyvc import api, runner   # noqa: E402

thr = float(os.environ.get('SLOW_S', '6'))
for prop in sys.argv[1:]:
    cs = [c for c in api.load(prop) if not c.opts.get('thorough_only')]
    cfg = {'tier': 'quick', 'seed': 0, 'branch_timeout_ms': 5000, 'ob_timeout_ms': 20000, 'cvc5_timeout_s': 30, 'max_paths': 4000, 'witnesses': False}
    with mp.get_context('fork').Pool(16) as pool:
        res = pool.map(runner.run_contract, [(prop, c.name, cfg) for c in cs], chunksize=1)
    for r in res:
        for rec in r['records']:
            if rec['backend'] == 'cvc5' or rec['time'] > thr:
                print(prop, r['contract'], rec['name'], rec['backend'], round(rec['time'], 1), 'path', rec['path_id'])
        if r['stats'].get('unknown_branches'):
            print(prop, r['contract'], 'unknown branch feasibility checks:', r['stats']['unknown_branches'])
