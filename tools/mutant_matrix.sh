#!/bin/bash
# Applies every seeded change to a scratch worktree of /repo HEAD and runs the check of its property against it.
# Usage: tools/mutant_matrix.sh [ids...]   -> appends to seeded/MATRIX.txt
cd "$(dirname "$0")/.."
ids=${@:-$(ls seeded | grep -E '^C[0-9]+-m[0-9]+$')}
WT=$(mktemp -d /tmp/matrix-wt.XXXXXX)
git -C /repo worktree add --detach "$WT" HEAD -q || exit 3
for id in $ids; do
  prop=${id%%-*}
  checks=$prop
  [ "$id" = "C08-m2" ] && checks="C13"
  [ "$id" = "C03-m3" ] && checks="C03 C11"     # the cache decoder belongs to C11
  [ "$id" = "C03-m5" ] && checks="C03 C11"     # the cache file lookup belongs to C11
  git -C "$WT" checkout -q -- . ; git -C "$WT" clean -fdq
  if ! git -C "$WT" apply "$PWD/seeded/$id/patch.diff" 2>/dev/null; then echo "$id: PATCH-DOES-NOT-APPLY (repo fix touches the same lines?)" | tee -a seeded/MATRIX.txt; continue; fi
  for chk in $checks; do
    out=$(VERIF_REPO="$WT" VERIF_NO_EVIDENCE=1 timeout 1500 ./vcheck $chk quick 2>&1); e=$?
    first=$(echo "$out" | grep -m1 "^VIOLATION" | sed 's/.*replays\///')
    nv=$(echo "$out" | grep -c "^VIOLATION")
    echo "$id: check=$chk exit=$e violations=$nv first=[$first]" | tee -a seeded/MATRIX.txt
    [ $e -ne 0 ] && [ $e -ne 1 ] && echo "$out" | grep -m2 -E "^(ENGINE-ERROR|UNDECIDED)" | cut -c1-400 | sed "s/^/    $id: /"
  done
done
git -C /repo worktree remove --force "$WT"
