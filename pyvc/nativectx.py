"""Concrete back end of the contract context: drives the REAL classes and functions of the
repository under the repository's own interpreter, from a dictionary of concrete input values
(a solver model).  Used for counterexample replay and for the per-path concordance witnesses.

Run as:  /venv/bin/python -m pyvc.nativectx   (JSON job on stdin, JSON report on stdout)
"""
import importlib
import json
import math
import struct
import sys
import threading
import traceback


import ast as _ast


class _LazyImplies(_ast.NodeTransformer):
    def visit_Call(self, node):
        self.generic_visit(node)
        if isinstance(node.func, _ast.Name) and node.func.id == 'implies' and len(node.args) == 2:
            return _ast.BoolOp(op=_ast.Or(), values=[_ast.UnaryOp(op=_ast.Not(), operand=node.args[0]), node.args[1]])
        return node


_code_cache = {}


def spec_eval(expr, ns):
    """eval with implies(a, b) lazy in b, as in the symbolic back end"""
    code = _code_cache.get(expr)
    if code is None:
        tree = _ast.parse(expr.strip(), mode='eval')
        tree = _ast.fix_missing_locations(_LazyImplies().visit(tree))
        code = compile(tree, '<spec>', 'eval')
        _code_cache[expr] = code
    return eval(code, ns)


CALL_TIMEOUT_S = 10


class Deadlock(BaseException):
    pass


class StopLoop(BaseException):
    """raised by a stub to leave an endless service loop after the scripted events"""


class PreconditionFailed(Exception):
    pass


class NativeLock:
    """threading.Lock with sequential semantics: blocking on a held lock is reported, not waited."""

    def __init__(self, name, held, trace):
        self.name, self.held, self.trace = name, bool(held), trace

    def acquire(self, blocking=True, timeout=-1):
        if self.held:
            if blocking and timeout == -1:
                hook = getattr(self, 'on_block', None)
                if hook is not None:
                    # explicit schedule: the other threads' actions run (once) while this thread waits for the lock
                    self.on_block = None
                    hook()
                    if not self.held:
                        self.held = True
                        return True
                raise Deadlock('acquire of held lock %s' % self.name)
            return False
        self.held = True
        return True

    def release(self):
        if not self.held:
            raise RuntimeError('release unlocked lock')
        self.held = False

    def locked(self):
        return self.held

    def __enter__(self):
        self.acquire()
        return self

    def __exit__(self, *a):
        self.release()
        return False


class NativeQueue:
    def __init__(self, name, items, maxsize, trace):
        import queue
        self._q = queue
        self.name, self.items, self.maxsize, self.trace = name, list(items), maxsize, trace

    def put(self, item, block=True, timeout=None):
        if self.maxsize and len(self.items) >= self.maxsize:
            if block and timeout is None:
                raise Deadlock('put on full queue')
            raise self._q.Full()
        self.items.append(item)

    def put_nowait(self, item):
        return self.put(item, False)

    def get(self, block=True, timeout=None):
        if not self.items:
            if block and timeout is None:
                raise Deadlock('get on empty queue')
            raise self._q.Empty()
        return self.items.pop(0)

    def get_nowait(self):
        return self.get(False)

    @property
    def queue(self):
        return tuple(self.items)

    def empty(self):
        return not self.items

    def qsize(self):
        return len(self.items)

    def full(self):
        return bool(self.maxsize) and len(self.items) >= self.maxsize

    def task_done(self):
        pass


class NativeEvent:
    def __init__(self, name, flag, trace):
        self.name, self.flag, self.trace = name, flag, trace

    def set(self):
        self.flag = True

    def clear(self):
        self.flag = False

    def is_set(self):
        return self.flag

    def wait(self, timeout=None):
        if self.flag:
            return True
        if timeout is None:
            raise Deadlock('wait on event %s that is never set' % self.name)
        return False


class NativeExt:
    """Recording stub for an external object."""

    def __init__(self, name, trace, attrs=None, returns=None, truthy=True, cls=None, parent=None, mname=None):
        d = self.__dict__
        d['_name'] = name
        d['_trace'] = trace
        d['_attrs'] = dict(attrs or {})
        d['_returns'] = dict(returns or {})
        d['_truthy'] = truthy
        d['_parent'] = parent
        d['_mname'] = mname
        d['_cls'] = cls

    def __getattr__(self, name):
        if name.startswith('__') and name.endswith('__'):
            raise AttributeError(name)
        d = self.__dict__
        if name in d['_attrs']:
            return d['_attrs'][name]
        pre = name + '.'
        sub = {k[len(pre):]: v for k, v in d['_returns'].items() if k.startswith(pre)}
        child = NativeExt(d['_name'] + '.' + name, d['_trace'], returns=sub, parent=self, mname=name)
        d['_attrs'][name] = child
        return child

    def __setattr__(self, name, value):
        self.__dict__['_attrs'][name] = value
        self.__dict__['_trace'].append(('set:' + self.__dict__['_name'] + '.' + name, (value,), {}))

    def __call__(self, *args, **kwargs):
        d = self.__dict__
        d['_trace'].append((d['_name'], tuple(args), dict(kwargs)))
        spec = None
        if d['_parent'] is not None and d['_mname'] in d['_parent'].__dict__['_returns']:
            spec = d['_parent'].__dict__['_returns'][d['_mname']]
        elif '()' in d['_returns']:
            spec = d['_returns']['()']
        if callable(spec):
            return spec(None, args, kwargs)
        return spec

    def __bool__(self):
        return self.__dict__['_truthy']

    def __repr__(self):
        return '<NativeExt %s>' % self.__dict__['_name']


def make_model_thread(ctx):
    """Deterministic stand-in for threading.Thread (c.model_threads): the same scheduler as
    models2._model_thread, with the choices 'sched!k' taken from the solver model."""
    st = {'pending': [], 'nthreads': 0, 'nsched': 0}

    def sched_point(must):
        while True:
            opts = list(st['pending'])
            if not opts:
                return
            can_stop = must is None or must._state != 'pending' or must not in opts
            n = len(opts) + (1 if can_stop else 0)
            pick = 0
            if n > 1:
                name = 'sched!%d' % st['nsched']
                st['nsched'] += 1
                pick = int(ctx._val(name))
                if not 0 <= pick < n:
                    raise KeyError('schedule choice %s=%d out of range %d' % (name, pick, n))
            if pick == len(opts):
                return
            t = opts[pick]
            st['pending'].remove(t)
            ctx.trace.append((t._name + '.run', (), {}))
            try:
                t._target(*t._args, **t._kwargs)
            except Exception as e:
                ctx.trace.append((t._name + '.uncaught', (e,), {}))
            t._state = 'done'
            ctx.trace.append((t._name + '.end', (), {}))

    class ModelThread:
        def __init__(self, group=None, target=None, name=None, args=(), kwargs=None, *, daemon=None):
            self._name = 'thread!%d' % st['nthreads']
            st['nthreads'] += 1
            self._target, self._args, self._kwargs = target, args, dict(kwargs or {})
            self._state = 'new'
            self.daemon = bool(daemon)
            self.name = self._name
            ctx.trace.append(('Thread', (), {'thread': self, 'target': target, 'args': args}))

        def start(self):
            ctx.trace.append((self._name + '.start', (), {}))
            if self._state != 'new':
                raise RuntimeError('threads can only be started once')
            self._state = 'pending'
            st['pending'].append(self)
            sched_point(None)

        def join(self, timeout=None):
            ctx.trace.append((self._name + '.join', (timeout,) if timeout is not None else (), {}))
            if self._state == 'new':
                raise RuntimeError('cannot join thread before it is started')
            sched_point(None if timeout is not None else self)

        def is_alive(self):
            ctx.trace.append((self._name + '.is_alive', (), {}))
            return self._state == 'pending'

        def __repr__(self):
            return '<ModelThread %s %s>' % (self._name, self._state)
    return ModelThread


def resolve(ref):
    modname, _, qual = ref.partition(':')
    v = importlib.import_module(modname)
    for part in qual.split('.') if qual else []:
        v = getattr(v, part)
    return v


def exc_name(e):
    t = type(e)
    if t is struct.error:
        return 'struct.error'
    import queue
    if t is queue.Empty:
        return 'queue.Empty'
    if t is queue.Full:
        return 'queue.Full'
    return t.__name__


def same_float(a, b):
    if not (isinstance(a, float) and isinstance(b, float)):
        return False
    if a != a or b != b:
        return a != a and b != b
    return a == b and math.copysign(1.0, a) == math.copysign(1.0, b)


# ---- opt-in (c.virtual_time) native counterparts of the symbolic models of time.sleep / time.time /
# Thread.start / Thread.join in models2.py: calls are recorded in the trace under the same names, nothing
# sleeps, no thread is started.  Inactive (the originals run) for contracts that do not opt in.
_VIRT = {'ctx': None, 'installed': False}


def _install_virtual_env():
    if _VIRT['installed']:
        return
    _VIRT['installed'] = True
    import time
    real_sleep, real_time = time.sleep, time.time
    real_start, real_join = threading.Thread.start, threading.Thread.join

    def sleep(d):
        ctx = _VIRT['ctx']
        if ctx is None:
            return real_sleep(d)
        ctx.trace.append(('time.sleep', (d,), {}))
        if d < 0:
            raise ValueError('sleep length must be non-negative')
        ctx._vclock += d

    def now():
        ctx = _VIRT['ctx']
        if ctx is None:
            return real_time()
        if ctx._vscript:
            ctx._vclock = ctx._vscript.pop(0)
        elif ('time.time!%d' % ctx._counters.get('time.time', 0)) in ctx.values:
            ctx._vclock = ctx._next_time()      # the reading the symbolic run chose (exported with the model)
        ctx.trace.append(('time.time', (), {'value': ctx._vclock}))
        return ctx._vclock

    def start(self):
        ctx = _VIRT['ctx']
        if ctx is None:
            return real_start(self)
        ctx.trace.append(('thread:%s.start' % type(self).__name__, (self,), {}))

    def join(self, timeout=None):
        ctx = _VIRT['ctx']
        if ctx is None:
            return real_join(self, timeout)
        ctx.trace.append(('thread:%s.join' % type(self).__name__, (self,), {} if timeout is None else {'timeout': timeout}))

    time.sleep, time.time = sleep, now
    threading.Thread.start, threading.Thread.join = start, join


_ABSENT = object()


class NativeCtx:
    backend = 'native'

    def __init__(self, contract, values):
        _VIRT['ctx'] = None
        self.contract = contract
        self.values = values
        self.trace = []
        self.ns = {}
        self.results = []       # (name, cls, ok, detail)
        self.float_mode = contract.opts.get('float_mode', 'FP')
        self._patched = []
        self._counters = {}
        self.sampler = None
        self._pending_kind = None
        self._call_depth = 0
        self.call_timeout = CALL_TIMEOUT_S
        self._install_helpers()

    def _val(self, name, default=None):
        if name not in self.values and self.sampler is not None:
            self.values[name] = self.sampler(name, self._pending_kind)
        if name not in self.values:
            # inputs declared after the point at which the model was taken: any value will do
            if default is None:
                raise KeyError('model has no value for input %s' % name)
            return default
        return self.values[name]

    def _reg(self, name, v):
        self.ns[name] = v
        return v

    def int(self, name, lo=None, hi=None):
        self._pending_kind = ('int', lo, hi)
        return self._reg(name, int(self._val(name, lo if lo is not None else (hi if hi is not None and hi < 0 else 0))))

    def bool(self, name):
        self._pending_kind = ('bool',)
        return self._reg(name, bool(self._val(name, False)))

    def float(self, name, finite=False):
        self._pending_kind = ('float', finite)
        v = self._val(name, {'f64bits': 0})
        if 'f64bits' in v:
            x = struct.unpack('<d', struct.pack('<Q', v['f64bits']))[0]
        else:
            x = float(v['real'])
        return self._reg(name, x)

    def _f(self, v):
        if 'f64bits' in v:
            return struct.unpack('<d', struct.pack('<Q', v['f64bits']))[0]
        return float(v['real'])

    def floats(self, name, n, kind='list', finite=False):
        self._pending_kind = ('floats', n, finite)
        v = [self._f(x) for x in self._val(name, [{'f64bits': 0}] * n)]
        return self._reg(name, tuple(v) if kind == 'tuple' else v)

    def get(self, name):
        return self.ns.get(name)

    def uf_summary(self, ref, helper, ret_lo=None, ret_hi=None, note=''):
        self.ns[helper] = resolve(ref)

    def bytes(self, name, n):
        self._pending_kind = ('ints', n, 0, 255)
        return self._reg(name, bytes(self._val(name, [0] * n)))

    def bytearray(self, name, n):
        self._pending_kind = ('ints', n, 0, 255)
        return self._reg(name, bytearray(self._val(name, [0] * n)))

    def ints(self, name, n, lo=None, hi=None, kind='list'):
        self._pending_kind = ('ints', n, lo, hi)
        v = list(self._val(name, [lo if lo is not None else 0] * n))
        if kind == 'tuple':
            v = tuple(v)
        elif kind == 'bytes':
            v = bytes(v)
        elif kind == 'bytearray':
            v = bytearray(v)
        return self._reg(name, v)

    def str(self, name, n, lo=32, hi=126):
        self._pending_kind = ('ints', n, lo, hi)
        return self._reg(name, ''.join(chr(c) for c in self._val(name, [lo] * n)) if n else '')

    def view(self, name, kind='bytes', maxlen=None, lo=0, hi=255):
        return self.seq(name, kind, maxlen)

    def seq(self, name, kind='bytes', maxlen=None):
        self._pending_kind = ('seq', maxlen)
        v = list(self._val(name, []))
        v = {'bytes': bytes, 'bytearray': bytearray, 'list': list, 'tuple': tuple}[kind](v)
        return self._reg(name, v)

    def choice(self, name, options):
        self._pending_kind = ('int', 0, len(options) - 1)
        return self._reg(name, options[int(self._val(name, 0))])

    def let(self, name, value):
        return self._reg(name, value)

    # objects
    def cls(self, ref):
        return resolve(ref)

    def obj(self, ref, _name=None, **fields):
        c = resolve(ref)
        o = object.__new__(c)
        if issubclass(c, threading.Thread):
            threading.Thread.__init__(o)
        for k, v in fields.items():
            try:
                object.__setattr__(o, k, v)
            except AttributeError:
                setattr(o, k, v)
        if _name:
            self.ns[_name] = o
        return o

    def new(self, ref, *args, **kwargs):
        return resolve(ref)(*args, **kwargs)

    def ext(self, name, attrs=None, returns=None, cls=None, truthy=True, auto=True):
        e = NativeExt(name, self.trace, attrs, returns, truthy, cls)
        self.ns.setdefault(name, e)
        return e

    def lock(self, name, held=False, on_block=None):
        lk = NativeLock(name, held, self.trace)
        lk.on_block = on_block
        self.ns.setdefault(name, lk)
        return lk

    def queue(self, name, items=(), maxsize=0):
        q = NativeQueue(name, items, maxsize, self.trace)
        self.ns.setdefault(name, q)
        return q

    def event(self, name, flag=False):
        e = NativeEvent(name, flag, self.trace)
        self.ns.setdefault(name, e)
        return e

    def model_threads(self, modref):
        """replace the name `Thread` of repository module modref by the deterministic ModelThread"""
        mod = importlib.import_module(modref)
        cur = mod.__dict__.get('Thread')
        if cur is not threading.Thread and getattr(cur, '__name__', '') != 'ModelThread':
            raise RuntimeError('%s.Thread is not threading.Thread' % modref)
        mod.Thread = make_model_thread(self)

    def func(self, ref):
        return resolve(ref)

    def namedtuple(self, ref, *items):
        return resolve(ref)(*items)

    def list(self, items):
        return list(items)

    def dict(self, pairs):
        return dict(pairs)

    # pre / call / post
    def require(self, expr):
        if not spec_eval(expr, self.ns):
            raise PreconditionFailed(expr)

    def assume_note(self, text):
        pass

    def snapshot(self, name, expr):
        self.ns[name] = spec_eval(expr, self.ns)
        return self.ns[name]

    def summary(self, ref, apply):
        pass

    def loop_invariant(self, *a, **k):
        pass

    def call(self, target, *args, **kwargs):
        if isinstance(target, str):
            f = resolve(target)
        elif isinstance(target, tuple):
            f = getattr(target[0], target[1])
        else:
            f = target
        self.ns['raised'] = None
        self.ns['exc'] = None
        self.ns['result'] = None
        import signal

        def on_alarm(signum, frame):
            self.hung = True
            raise Deadlock('native call still running after %d s (blocked for ever or endless loop)' % self.call_timeout)
        outermost = self._call_depth == 0
        self._call_depth += 1
        if outermost:
            old = signal.signal(signal.SIGALRM, on_alarm)
            signal.alarm(self.call_timeout)
        try:
            try:
                self.ns['result'] = f(*args, **kwargs)
            finally:
                self._call_depth -= 1
                if outermost:
                    signal.alarm(0)
                    signal.signal(signal.SIGALRM, old)
        except Deadlock as e:
            self.ns['raised'] = 'Deadlock'
            self.ns['exc'] = e
        except StopLoop as e:
            self.ns['raised'] = 'StopLoop'
            self.ns['exc'] = e
        except (Exception, KeyboardInterrupt) as e:        # KeyboardInterrupt only ever comes from a c.raiser stub here
            self.ns['raised'] = exc_name(e)
            self.ns['exc'] = e
            self.ns['exc_tb'] = traceback.format_exc()
        self.ns['trace'] = tuple(self.trace)
        return self.ns['result']

    def set(self, obj, attr, value):
        setattr(obj, attr, value)

    def getfield(self, obj, attr):
        return getattr(obj, attr)

    def use_stubs(self, modref, names):
        mod = importlib.import_module(modref)
        trace = self.trace
        ctx = self
        for nm in names:
            if not hasattr(mod, nm):
                raise AttributeError('%s has no %s to stub' % (modref, nm))
            self._patched.append((mod, nm, getattr(mod, nm)))
            if nm == 'Timer':
                class NativeTimer:
                    def __init__(self, interval, function, args=None, kwargs=None):
                        self.interval, self.function = interval, function
                        self.name = 'timer!%d' % ctx._counter('timer')
                        trace.append(('Timer', (interval, function), {'timer': self}))

                    def start(self):
                        trace.append((self.name + '.start', (), {}))

                    def cancel(self):
                        trace.append((self.name + '.cancel', (), {}))

                    def __bool__(self):
                        return True
                setattr(mod, nm, NativeTimer)
            elif nm == 'Thread':
                class NativeThread:
                    def __init__(self, group=None, target=None, name=None, args=(), kwargs=None, daemon=None):
                        self.target, self.t_args = target, args
                        self.name = 'thread!%d' % ctx._counter('thread')
                        self.daemon = daemon
                        trace.append(('Thread', (), {'thread': self, 'target': target, 'args': args}))

                    def start(self):
                        trace.append((self.name + '.start', (), {}))

                    def join(self, timeout=None):
                        trace.append((self.name + '.join', (), {}))

                    def is_alive(self):
                        return False
                setattr(mod, nm, NativeThread)
            elif nm == 'time':
                class NativeTimeModule:
                    @staticmethod
                    def sleep(d):
                        trace.append(('time.sleep', (d,), {}))
                        if d < 0:
                            raise ValueError('sleep length must be non-negative')

                    @staticmethod
                    def time():
                        v = ctx._next_time()
                        trace.append(('time.time', (), {'value': v}))
                        return v
                setattr(mod, nm, NativeTimeModule)
            elif nm == 'sleep':
                def sleep(d):
                    trace.append(('time.sleep', (d,), {}))
                    if d < 0:
                        raise ValueError('sleep length must be non-negative')
                setattr(mod, nm, sleep)
            else:
                raise AttributeError('no stub kind for %s' % nm)

    def _counter(self, key):
        n = self._counters.get(key, 0)
        self._counters[key] = n + 1
        return n

    def _next_time(self):
        k = 'time.time!%d' % self._counter('time.time')
        v = self.values.get(k)
        if v is None:
            self._tlast = getattr(self, '_tlast', 1000.0) + 1.0
            return self._tlast
        return self._f(v)

    def patch(self, ref, value, create=False):
        """(added for C20) replace the module / class attribute `ref` ('pkg.mod:Name' or 'pkg.mod:Class.attr') by
        `value` for this run (hardware constructors, module-level driver lists ...); undone by unpatch()"""
        modname, _, qual = ref.partition(':')
        parts = qual.split('.')
        parent = resolve(modname + ':' + '.'.join(parts[:-1]))
        if parts[-1] not in vars(parent) and not create:
            raise AttributeError('%s: nothing to patch' % ref)
        self._patched.append((parent, parts[-1], vars(parent).get(parts[-1], _ABSENT)))
        setattr(parent, parts[-1], value)
        return value

    def unpatch(self):
        for mod, nm, old in reversed(self._patched):
            if old is _ABSENT:
                delattr(mod, nm)
            else:
                setattr(mod, nm, old)

    def concretize(self, expr, limit=64):
        v = spec_eval(expr, self.ns) if isinstance(expr, str) else expr
        return int(v)

    def invoke(self, target, *args, **kwargs):
        f = resolve(target) if isinstance(target, str) else (getattr(target[0], target[1]) if isinstance(target, tuple) else target)
        if self._call_depth > 0:
            return f(*args, **kwargs)
        # set-up code of a contract runs real code too: the same time limit as for c.call (a change that makes it loop for ever
        # must not block the driver)
        import signal

        def on_alarm(signum, frame):
            self.hung = True
            raise Deadlock('native call (set-up of the contract) still running after %d s' % self.call_timeout)
        old = signal.signal(signal.SIGALRM, on_alarm)
        signal.alarm(self.call_timeout)
        self._call_depth += 1
        try:
            return f(*args, **kwargs)
        finally:
            self._call_depth -= 1
            signal.alarm(0)
            signal.signal(signal.SIGALRM, old)

    def invoke_catch(self, target, *args, **kwargs):
        try:
            self.invoke(target, *args, **kwargs)
            return None
        except StopLoop:
            return 'StopLoop'
        except Deadlock:
            return 'Deadlock'
        except Exception as e:
            return exc_name(e)

    def raiser(self, excname, *args):
        def f(*_a):
            if excname == 'StopLoop':
                raise StopLoop(*args)
            if excname == 'Deadlock':
                raise Deadlock(*args)
            import builtins
            import queue
            cls = {'queue.Empty': queue.Empty, 'queue.Full': queue.Full, 'struct.error': struct.error}.get(excname) or getattr(builtins, excname)
            raise cls(*args)
        return f

    def virtual_time(self, clock=None):
        """sequential models of time.sleep/time.time/Thread.start/Thread.join for this run (see _install_virtual_env);
        clock = the values successive time.time() calls return (afterwards: last value + slept time)"""
        _install_virtual_env()
        self._vscript = [float(x) for x in (clock or [])]
        self._vclock = 1000.0
        _VIRT['ctx'] = self

    def reset_trace(self):
        del self.trace[:]

    def ensure(self, name, expr, cls='P', native=True):
        if not native:
            self.results.append((name, cls, None, 'not evaluated natively'))
            return
        try:
            ok = bool(spec_eval(expr, self.ns))
            detail = ''
        except Exception as e:
            ok = False
            detail = 'spec raised %s: %s' % (type(e).__name__, e)
        self.results.append((name, cls, ok, detail))

    def cover(self, name, expr):
        pass

    def _install_helpers(self):
        ns = self.ns
        ns['implies'] = lambda a, b: (not a) or bool(b)
        ns['iff'] = lambda a, b: bool(a) == bool(b)
        ns['same_float'] = same_float
        ns['fp16_value'] = lambda x: struct.unpack('<e', struct.pack('<H', x))[0]
        ns['f32'] = lambda x: struct.unpack('<f', struct.pack('<f', x))[0]
        def fits_f32(x):
            try:
                struct.pack('<f', x)
                return True
            except OverflowError:
                return False

        def fits_mm16(v):
            try:
                return -32768 <= int(v * 1000) <= 32767
            except (ValueError, OverflowError):
                return False
        ns['fits_f32'] = fits_f32
        ns['mm'] = lambda x: int(x * 1000)
        ns['fits_mm16'] = fits_mm16
        ns['pack'] = struct.pack
        ns['unpack'] = struct.unpack
        ns['forall'] = lambda it, f: all(f(x) for x in it)
        ns['exists'] = lambda it, f: any(f(x) for x in it)
        ns['is_nan'] = lambda x: isinstance(x, float) and x != x
        ns['is_inf'] = lambda x: isinstance(x, float) and x in (float('inf'), float('-inf'))
        ns['typename'] = lambda x: type(x).__name__
        ns['calls'] = lambda pre='': tuple(e[0] for e in self.trace if e[0].startswith(pre))
        ns['sent'] = lambda name: tuple(e for e in self.trace if e[0] == name)
        ns['is_same'] = lambda a, b: a is b
        ns['field'] = getattr
        import binascii
        ns['crc32'] = binascii.crc32
        ns['Deadlock'] = 'Deadlock'


def make_sampler(rng):
    """input generator for the bounded native stand-in: boundary values first, then random"""
    import struct as st

    def rint(lo, hi):
        cands = [0, 1, -1, 2, 127, 128, 255, 256, 32767, 32768, 65535, 65536, 2 ** 31 - 1, 2 ** 31, 2 ** 32 - 1, 2 ** 32,
                 2 ** 53, 2 ** 53 + 1, 2 ** 63 - 1, 2 ** 63, 2 ** 64 - 1, 2 ** 64, -128, -129, -32768, -32769, -2 ** 31, -2 ** 31 - 1,
                 -2 ** 63, -2 ** 63 - 1, -2 ** 53 - 1]
        if lo is not None:
            cands += [lo, lo + 1]
        if hi is not None:
            cands += [hi, hi - 1]
        ok = [v for v in cands if (lo is None or v >= lo) and (hi is None or v <= hi)]
        r = rng.random()
        if ok and r < 0.6:
            return rng.choice(ok)
        a = lo if lo is not None else -2 ** 70
        b = hi if hi is not None else 2 ** 70
        if r < 0.8:
            k = rng.randrange(1, 71)
            v = rng.choice([1, -1]) * (rng.getrandbits(k))
            return min(max(v, a), b)
        return rng.randint(a, b)

    def rfloat(finite):
        specials = [0.0, -0.0, 1.0, -1.0, 0.5, 1e-3, 3.4028234663852886e38, 3.5e38, -3.5e38, 1e308, 5e-324, 32.767, 32.768, -32.769]
        if not finite:
            specials += [float('inf'), float('-inf'), float('nan')]
        r = rng.random()
        if r < 0.4:
            x = rng.choice(specials)
        elif r < 0.8:
            x = rng.uniform(-100, 100)
        else:
            x = st.unpack('<d', st.pack('<Q', rng.getrandbits(64)))[0]
            if finite and (x != x or x in (float('inf'), float('-inf'))):
                x = rng.uniform(-1e6, 1e6)
        return {'f64bits': st.unpack('<Q', st.pack('<d', x))[0]}

    def sample(name, kind):
        if kind is None:
            return 0
        if kind[0] == 'int':
            return rint(kind[1], kind[2])
        if kind[0] == 'bool':
            return rng.random() < 0.5
        if kind[0] == 'float':
            return rfloat(kind[1])
        if kind[0] == 'floats':
            return [rfloat(kind[2]) for _ in range(kind[1])]
        if kind[0] == 'ints':
            return [rint(kind[2], kind[3]) for _ in range(kind[1])]
        if kind[0] == 'seq':
            n = rng.randint(0, min(kind[1], 64) if kind[1] is not None else 40)
            return [rng.randint(0, 255) for _ in range(n)]
        return 0
    return sample


def _summ(v, depth=0):
    try:
        r = repr(v)
    except Exception as e:
        r = '<repr failed %s>' % e
    return r[:300]


def run_job(job):
    sys.path.insert(0, job['repo_root'])
    sys.path.insert(0, job['verif_root'])
    from pyvc import api
    contracts = {c.name: c for c in api.load(job['prop'])}
    import cflib
    out = {'cflib': cflib.__file__, 'runs': []}
    failed_contracts = set()
    hangs = {}
    for item in job['items']:
        if hangs.get(item["contract"], 0) >= 1:
            # a native call of this contract already ran into the time limit (a change that makes the code loop or block):
            # do not wait for every remaining witness / counterexample of the same contract
            out['runs'].append({'contract': item['contract'], 'tag': item.get('tag'), 'ensures': [],
                                'error': 'skipped: earlier native calls of this contract did not return within the time limit',
                                'raised': None, 'exc': None, 'result': None, 'trace': [], 'values': dict(item['values'])})
            continue
        if job.get('stop_on_fail') and item['contract'] in failed_contracts:
            out['runs'].append({'contract': item['contract'], 'tag': item.get('tag'), 'ensures': [], 'error': 'precondition-not-met: skipped (an earlier sample of this contract already failed)',
                                'raised': None, 'exc': None, 'result': None, 'trace': [], 'values': {}})
            continue
        c = contracts[item['contract']]
        ctx = NativeCtx(c, dict(item['values']))
        ctx.call_timeout = job.get('call_timeout_s', CALL_TIMEOUT_S)
        if item.get('sample_seed') is not None:
            import random
            ctx.sampler = make_sampler(random.Random(item['sample_seed']))
        rec = {'contract': c.name, 'tag': item.get('tag'), 'ensures': [], 'error': None}
        try:
            c.fn(ctx)
        except PreconditionFailed as e:
            rec['error'] = 'precondition-not-met: %s' % e
        except Deadlock as e:
            rec['error'] = 'contract-run-raised Deadlock: %s' % e
        except Exception as e:
            rec['error'] = 'contract-run-raised %s: %s\n%s' % (type(e).__name__, e, traceback.format_exc()[-1500:])
        finally:
            ctx.unpatch()
        rec['ensures'] = [list(r) for r in ctx.results]
        if getattr(ctx, 'hung', False):
            hangs[c.name] = hangs.get(c.name, 0) + 1
        if getattr(ctx, 'hung', False) and item.get('sample_seed') is not None and not (
                (rec['error'] or '').startswith('contract-run-raised') and 'Deadlock' not in (rec['error'] or '')):
            # bounded stand-in only (the contract is already undecided): a call on a small sampled input that is still running after
            # the time limit is reported as a failing sample, whatever the contract goes on to require - and the remaining
            # samples of this contract are skipped instead of waiting for each of them
            rec['ensures'].append(['the-call-returns (native call still running after %d s)' % ctx.call_timeout, 'P', False, 'hang'])
            rec['error'] = None
        rec['values'] = {k: v for k, v in ctx.values.items()}
        rec['raised'] = ctx.ns.get('raised')
        rec['exc'] = _summ(ctx.ns.get('exc')) if ctx.ns.get('exc') is not None else None
        rec['result'] = _summ(ctx.ns.get('result'))
        rec['trace'] = [_summ(e) for e in ctx.trace[:40]]
        out['runs'].append(rec)
        if any(e[2] is False for e in rec['ensures']) and not (rec['error'] or '').startswith('precondition-not-met'):
            failed_contracts.add(c.name)
    return out


if __name__ == '__main__':
    job = json.load(sys.stdin)
    real_stdout = sys.stdout
    sys.stdout = sys.stderr         # the library prints warnings; keep the report channel clean
    rep = run_job(job)
    json.dump(rep, real_stdout)
