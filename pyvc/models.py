"""Models of builtins, container methods and the external (non-repository) modules."""
import builtins as _b
import math as _math
import struct as _struct
import z3

from .values import *
from .core import OutOfSubset, PyRaise, EngineError, Budget
from . import ops, structmodel
from .ops import (zterm, mk_int, mk_bool, zbool, is_intlike, is_floatlike, is_number, is_seq, seq_items, py_eq,
                  compare, binop, conj, disj)


class NTClass:
    def __init__(self, name, fields):
        self.name = name
        self.fields = list(fields)


class NTVal(tuple):
    """namedtuple instance: a host tuple carrying its class."""
    def __new__(cls, ntc, items):
        o = tuple.__new__(cls, items)
        o.ntc = ntc
        return o


ops.NTVal = NTVal

# ------------------------------------------------------------------ exceptions

_EXC = {}


def exc_class(I, name):
    if name in _EXC:
        return _EXC[name]
    if name == 'struct.error':
        c = ExcClass('struct.error', [exc_class(I, 'Exception')])
    elif name in ('queue.Empty', 'queue.Full'):
        c = ExcClass(name, [exc_class(I, 'Exception')])
    elif name in ('Deadlock', 'StopLoop'):
        c = ExcClass(name, [exc_class(I, 'BaseException')])
    elif name == 'socket.timeout':
        c = ExcClass(name, [exc_class(I, 'OSError')])
    else:
        host = _b.getattr(_b, name, None)
        if not (isinstance(host, type) and issubclass(host, BaseException)):
            raise OutOfSubset('unknown exception class %s' % name)
        bases = [exc_class(I, b.__name__) for b in host.__bases__ if b is not object]
        c = ExcClass(name, bases)
    _EXC[name] = c
    return c


def excclass_of_classval(I, cls):
    """ExcClass for a repository class deriving from an exception, else None."""
    if hasattr(cls, '_excclass'):
        return cls._excclass
    r = None
    for b in cls.bases:
        eb = b if isinstance(b, ExcClass) else (excclass_of_classval(I, b) if isinstance(b, ClassVal) else None)
        if eb is not None:
            r = ExcClass(cls.name, [eb])
            break
    cls._excclass = r
    return r


def type_name(I, v):
    if v is None:
        return 'NoneType'
    if isinstance(v, (bool, SBool)):
        return 'bool'
    if isinstance(v, (int, SInt)):
        return 'int'
    if isinstance(v, (float, SFloat, SReal)):
        return 'float'
    if isinstance(v, (str, PStr)):
        return 'str'
    if isinstance(v, NTVal):
        return v.ntc.name
    if isinstance(v, tuple):
        return 'tuple'
    if isinstance(v, (PList, PBytearray, PBytes, SSeq, SView)):
        return v.kind
    if isinstance(v, PDict):
        return 'dict'
    if isinstance(v, PSet):
        return 'set'
    if isinstance(v, Obj):
        return v.cls.name
    if isinstance(v, (FuncVal, Builtin)):
        return 'function'
    if isinstance(v, BoundMethod):
        return 'method'
    return type(v).__name__


# ------------------------------------------------------------------ builtins

def _bi(name):
    def deco(fn):
        BUILTINS[name] = Builtin(name, fn)
        return fn
    return deco


BUILTINS = {}
TYPES = {}


def builtin(I, name):
    if name in BUILTINS:
        return BUILTINS[name]
    if name in ('True', 'False', 'None'):
        return {'True': True, 'False': False, 'None': None}[name]
    host = _b.getattr(_b, name, None)
    if isinstance(host, type) and issubclass(host, BaseException):
        return exc_class(I, name)
    return None


def install(I):
    pass


@_bi('len')
def _len(I, a, k):
    return ops.seq_len(I, a[0])


@_bi('range')
def _range(I, a, k):
    if len(a) == 1:
        return RangeVal(0, a[0], 1)
    if len(a) == 2:
        return RangeVal(a[0], a[1], 1)
    return RangeVal(a[0], a[1], a[2])


@_bi('isinstance')
def _isinstance(I, a, k):
    v, c = a
    cs = list(c) if isinstance(c, tuple) else [c]
    return any(isinstance_one(I, v, x) for x in cs)


def isinstance_one(I, v, c):
    if isinstance(c, BuiltinType):
        n = c.name
        if n == 'int':
            return isinstance(v, (int, SInt, SBool)) and not isinstance(v, float)
        if n == 'bool':
            return isinstance(v, (bool, SBool))
        if n == 'float':
            return isinstance(v, (float, SFloat, SReal))
        if n == 'str':
            return isinstance(v, (str, PStr))
        if n == 'bytes':
            return isinstance(v, PBytes) or (isinstance(v, (SSeq, SView)) and v.kind == 'bytes')
        if n == 'bytearray':
            return isinstance(v, PBytearray) or (isinstance(v, (SSeq, SView)) and v.kind == 'bytearray')
        if n == 'list':
            return isinstance(v, PList) or (isinstance(v, (SSeq, SView)) and v.kind == 'list')
        if n == 'tuple':
            return isinstance(v, tuple) or (isinstance(v, SView) and v.kind == 'tuple')
        if n == 'dict':
            return isinstance(v, PDict)
        if n == 'set':
            return isinstance(v, PSet)
        if n == 'object':
            return True
        raise OutOfSubset('isinstance %s' % n)
    if isinstance(c, ClassVal):
        if isinstance(v, Obj):
            return c in v.cls.mro()
        if isinstance(v, Ext):
            return v.cls is not None and v.cls == c.name
        if isinstance(v, ExcVal):
            ec = excclass_of_classval(I, c)
            return ec is not None and v.cls.is_sub(ec)
        return False
    if isinstance(c, ExcClass):
        return isinstance(v, ExcVal) and v.cls.is_sub(c)
    if isinstance(c, NTClass):
        return isinstance(v, NTVal) and v.ntc is c
    if isinstance(c, ExtClass):
        if isinstance(v, Ext):
            return v.cls == c.name
        if isinstance(v, Obj):
            return c in v.cls.mro()
        return False
    raise OutOfSubset('isinstance against %r' % (c,))


def _type_ctor(name):
    def deco(fn):
        t = BuiltinType(name, fn)
        BUILTINS[name] = t
        TYPES[name] = t
        return fn
    return deco


@_type_ctor('object')
def _object(I, a, k):
    return Obj(ClassVal('object', [], None))


@_type_ctor('int')
def _int(I, a, k):
    if not a:
        return 0
    v = a[0]
    if len(a) > 1 or 'base' in k:
        base = a[1] if len(a) > 1 else k['base']
        return str_to_int(I, v, base)
    if isinstance(v, (bool, int)) and not isinstance(v, float):
        return int(v)
    if isinstance(v, SBool):
        return mk_int(zterm(v))
    if isinstance(v, SInt):
        return v
    if isinstance(v, float):
        try:
            return int(v)
        except (ValueError, OverflowError) as e:
            I.raise_py(type(e).__name__, str(e))
    if isinstance(v, SFloat):
        x = v.t
        if I.path.decide(z3.fpIsNaN(x)):
            I.raise_py('ValueError', 'cannot convert float NaN to integer')
        if I.path.decide(z3.fpIsInf(x)):
            I.raise_py('OverflowError', 'cannot convert float infinity to integer')
        return float_trunc_term(I, x)
    if isinstance(v, SReal):
        fl = z3.ToInt(v.t)
        return mk_int(z3.If(v.t >= 0, fl, -z3.ToInt(-v.t)))
    if isinstance(v, (str, PStr)):
        return str_to_int(I, v, 10)
    if isinstance(v, (PBytes, PBytearray)):
        raise OutOfSubset('int(bytes)')
    if v is None or is_seq(v) or isinstance(v, PDict):
        I.raise_py('TypeError', "int() argument must be a string, a bytes-like object or a real number, not '%s'" % type_name(I, v))
    raise OutOfSubset('int(%r)' % (v,))


def float_trunc_term(I, x):
    """int(x) for a finite binary64 term x.  |x| < 2**62: exact through a 64-bit signed conversion.
    Beyond that the exact integer is not tracked, only its sign and that |v| >= 2**62
    (uninterpreted function of x, so equal arguments give equal results; no fork)."""
    lim = z3.FPVal(float(2 ** 62), F64)
    small = z3.And(z3.fpLT(x, lim), z3.fpGT(x, z3.fpNeg(lim)))
    conv = z3.BV2Int(z3.fpToSBV(RTZ, x, z3.BitVecSort(64)), True)
    if z3.is_true(I.path.reduce(small)) or (I.cfg.get('int_float_small_by_solver') and I.path.must(small)):
        # (C13) |x| < 2**62 is a literal fact of the path (or, opt-in by the contract, proved by the solver): exact
        # case only, no unbounded 'hugeint' symbol in the path condition
        return mk_int(conv)
    r = z3.Int('hugeint!%d' % x.get_id())     # same term -> same symbol
    I._keep = _b.getattr(I, '_keep', [])
    I._keep.append(x)                          # keep the AST (and its id) alive
    I.path.assume(z3.Implies(z3.Not(small), z3.If(z3.fpGT(x, z3.FPVal(0.0, F64)), r >= 2 ** 62, r <= -(2 ** 62))))
    I.note_assumption('int(float) for |x| >= 2**62 is tracked by sign and magnitude bound only')
    return mk_int(z3.If(small, conv, r))


def str_to_int(I, s, base):
    if isinstance(s, str):
        try:
            return int(s, base)
        except ValueError as e:
            I.raise_py('ValueError', str(e))
    if isinstance(s, PStr):
        # symbolic characters: digits only (no sign / whitespace / underscore handling beyond rejecting)
        if not isinstance(base, int):
            raise OutOfSubset('symbolic base')
        if len(s.chars) == 0:
            I.raise_py('ValueError', 'invalid literal for int()')
        acc = 0
        for c in s.chars:
            if base == 16 and not isinstance(c, int):
                # added for C20 (uri_helper.address_from_env): one fork valid / invalid per hex digit instead of one per digit
                # class (3**10 paths for a 10 digit address otherwise); same value, no other user of int(<symbolic str>, 16)
                from .models_uri import _hex_value
                d = _hex_value(I, c)
            else:
                d = char_digit(I, c, base)
            if d is None:
                I.raise_py('ValueError', 'invalid literal for int() with base %d' % base)
            acc = binop(I, '+', binop(I, '*', acc, base), d)
        return acc
    raise OutOfSubset('int(%r, base)' % (s,))


def char_digit(I, c, base):
    """digit value of char code c in base, or None (forks)."""
    if isinstance(c, int):
        ch = chr(c)
        try:
            return int(ch, base)
        except ValueError:
            return None
    t = zterm(c)
    nd = min(base, 10)
    if I.path.decide(z3.And(t >= 48, t < 48 + nd)):
        return mk_int(t - 48)
    if base > 10:
        if I.path.decide(z3.And(t >= 97, t < 97 + base - 10)):
            return mk_int(t - 87)
        if I.path.decide(z3.And(t >= 65, t < 65 + base - 10)):
            return mk_int(t - 55)
    # anything else (incl. whitespace, sign, underscore, unicode digits): treated as invalid;
    # contracts restrict symbolic characters to ASCII so unicode digits do not arise
    return None


@_type_ctor('float')
def _float(I, a, k):
    if not a:
        return 0.0
    v = a[0]
    if isinstance(v, (SFloat, SReal, float)):
        return v
    if isinstance(v, (bool, int)):
        try:
            return float(v)
        except OverflowError as e:
            I.raise_py('OverflowError', str(e))
    if isinstance(v, (SInt, SBool)):
        if I.float_mode == 'R':
            return SReal(ops.to_real(I, v))
        return ops.mk_float(ops.to_fp(I, v))
    if isinstance(v, str):
        try:
            return float(v)
        except ValueError as e:
            I.raise_py('ValueError', str(e))
    if v is None or is_seq(v):
        I.raise_py('TypeError', "float() argument must be a string or a real number, not '%s'" % type_name(I, v))
    raise OutOfSubset('float(%r)' % (v,))


@_type_ctor('bool')
def _bool(I, a, k):
    if not a:
        return False
    return I.truth(a[0])


@_type_ctor('str')
def _str(I, a, k):
    if not a:
        return ''
    v = a[0]
    if len(a) > 1 or 'encoding' in k:
        return bytes_decode(I, v, a[1] if len(a) > 1 else k['encoding'])
    return to_str(I, v)


def to_str(I, v):
    if isinstance(v, (str, PStr)):
        return v
    if isinstance(v, (bool, int, float)) or v is None:
        return str(v)
    if isinstance(v, SInt):
        return OpaqueStr('str(int)', v)
    if isinstance(v, (SFloat, SReal)):
        return OpaqueStr('str(float)', v)
    if isinstance(v, ExcVal):
        if len(v.args) == 1:
            return to_str(I, v.args[0])
        if not v.args:
            return ''
    if isinstance(v, Obj):
        m = I.find_method(v, '__str__')
        if m is not None:
            return I.call(m, [], {})
    return OpaqueStr('str(%s)' % type_name(I, v), v)


class OpaqueStr(Opaque):
    """A string whose characters the engine does not model (e.g. str(float)).  Carries the value
    it was made from, so that equal sources give equal strings in specifications."""

    def __init__(self, what, src=None):
        Opaque.__init__(self, what)
        self.src = src


def int_to_str(I, v):
    raise OutOfSubset('str() of a symbolic int')


def _review(v, kind):
    r = SView(v.arr, v.off, v.ln, kind, v.pre)
    r.byte_range = _b.getattr(v, 'byte_range', False) or v.kind in ('bytes', 'bytearray')
    return r


@_type_ctor('bytes')
def _bytes(I, a, k):
    if not a:
        return PBytes([])
    if isinstance(a[0], SView):
        if not (a[0].kind in ('bytes', 'bytearray') or _b.getattr(a[0], 'byte_range', False)):
            raise OutOfSubset('bytes() of a symbolic-length sequence without the byte range invariant')
        return _review(a[0], 'bytes')
    if isinstance(a[0], SSeq):
        return SSeq(a[0].t, 'bytes')
    return PBytes(bytes_items(I, a[0], a[1:] , k))


@_type_ctor('bytearray')
def _bytearray(I, a, k):
    if not a:
        return PBytearray([])
    v = a[0]
    if isinstance(v, SView):
        if not (v.kind in ('bytes', 'bytearray') or _b.getattr(v, 'byte_range', False)):
            raise OutOfSubset('bytearray() of a symbolic-length sequence without the byte range invariant')
        return _review(v, 'bytearray')
    if isinstance(v, SSeq):
        return SSeq(v.t, 'bytearray')
    return PBytearray(bytes_items(I, v, a[1:], k))


def bytes_items(I, v, rest, k):
    if isinstance(v, (str, PStr)):
        enc = rest[0] if rest else k.get('encoding')
        if enc is None:
            I.raise_py('TypeError', 'string argument without an encoding')
        return list(str_encode(I, v, enc).items)
    if isinstance(v, (int,)) and not isinstance(v, bool):
        if v < 0:
            I.raise_py('ValueError', 'negative count')
        return [0] * v
    if isinstance(v, SInt):
        raise OutOfSubset('bytes(symbolic count)')
    if isinstance(v, (PBytes, PBytearray)):
        return list(v.items)
    if v is None:
        I.raise_py('TypeError', "cannot convert 'NoneType' object to bytes")
    items = I.iterate_all(v)
    return [ops.byte_check(I, x) for x in items]


@_type_ctor('list')
def _list(I, a, k):
    if not a:
        return PList([])
    if isinstance(a[0], SView):
        return _review(a[0], 'list')
    if isinstance(a[0], SSeq):
        return SSeq(a[0].t, 'list')
    return PList(I.iterate_all(a[0]))


@_type_ctor('tuple')
def _tuple(I, a, k):
    if not a:
        return ()
    if isinstance(a[0], SView):
        return _review(a[0], 'tuple')
    if isinstance(a[0], SSeq):
        return SSeq(a[0].t, 'tuple')
    return tuple(I.iterate_all(a[0]))


@_type_ctor('dict')
def _dict(I, a, k):
    d = PDict()
    if a:
        src = a[0]
        if isinstance(src, PDict):
            for kk, vv in zip(src.keys, src.vals):
                I.setitem(d, kk, vv)
        else:
            for pair in I.iterate_all(src):
                kk, vv = I.iterate_all(pair)
                I.setitem(d, kk, vv)
    for kk, vv in k.items():
        I.setitem(d, kk, vv)
    return d


@_type_ctor('set')
def _set(I, a, k):
    s = PSet()
    if a:
        for x in I.iterate_all(a[0]):
            set_add(I, s, x)
    return s


def set_add(I, s, x):
    check_hashable(I, x)
    for y in s.items:
        r = py_eq(I, x, y)
        if r is True or (r is not False and I.path.decide(r.t)):
            return
    s.items.append(x)


def check_hashable(I, k):
    if isinstance(k, (PList, PDict, PSet, PBytearray)):
        I.raise_py('TypeError', "unhashable type: '%s'" % type_name(I, k))


@_bi('abs')
def _abs(I, a, k):
    v = a[0]
    if not is_sym(v):
        return abs(v)
    if isinstance(v, SInt):
        return mk_int(z3.If(v.t >= 0, v.t, -v.t))
    if isinstance(v, SFloat):
        return ops.mk_float(z3.fpAbs(v.t))
    if isinstance(v, SReal):
        return SReal(z3.If(v.t >= 0, v.t, -v.t))
    raise OutOfSubset('abs')


def _minmax(I, a, k, is_min):
    items = I.iterate_all(a[0]) if len(a) == 1 else list(a)
    if not items:
        I.raise_py('ValueError', 'arg is an empty sequence')
    best = items[0]
    for x in items[1:]:
        c = compare(I, '<', x, best) if is_min else compare(I, '>', x, best)
        if isinstance(c, bool):
            best = x if c else best
        elif I.spec_mode or (is_number(x) and is_number(best)):
            best = ite(I, c, x, best)
        else:
            best = x if I.path.decide(c.t) else best
    return best


@_bi('min')
def _min(I, a, k):
    return _minmax(I, a, k, True)


@_bi('max')
def _max(I, a, k):
    return _minmax(I, a, k, False)


def ite(I, c, a, b):
    """value-level if-then-else on a symbolic condition (SBool)."""
    if isinstance(c, bool):
        return a if c else b
    if a is b:
        return a
    if isinstance(a, (bool, SBool)) and isinstance(b, (bool, SBool)):
        return mk_bool(z3.If(c.t, zbool(a), zbool(b)))
    if is_intlike(a) and is_intlike(b):
        return mk_int(z3.If(c.t, zterm(a), zterm(b)))
    if is_number(a) and is_number(b):
        if isinstance(a, SReal) or isinstance(b, SReal) or I.float_mode == 'R':
            return SReal(z3.If(c.t, ops.to_real(I, a), ops.to_real(I, b)))
        return ops.mk_float(z3.If(c.t, ops.to_fp(I, a), ops.to_fp(I, b)))
    if is_seq(a) and is_seq(b) and not isinstance(a, SSeq) and not isinstance(b, SSeq) and \
            ops.seq_kind(a) == ops.seq_kind(b) and len(seq_items(a)) == len(seq_items(b)):
        return ops.mk_seq(ops.seq_kind(a), [ite(I, c, x, y) for x, y in zip(seq_items(a), seq_items(b))])
    if isinstance(a, (SSeq, PBytes, PBytearray, PList, tuple)) and isinstance(b, (SSeq, PBytes, PBytearray, PList, tuple)):
        return SSeq(z3.If(c.t, ops.seq_term(a), ops.seq_term(b)), ops.seq_kind(a))
    raise OutOfSubset('cannot merge %r and %r' % (a, b))


@_bi('sum')
def _sum(I, a, k):
    acc = a[1] if len(a) > 1 else 0
    for x in I.iterate_all(a[0]):
        acc = binop(I, '+', acc, x)
    return acc


@_bi('any')
def _any(I, a, k):
    if I.spec_mode:
        return disj(I, [I.truth(x) for x in I.iterate_all(a[0])])
    it = I.get_iter(a[0])
    while True:
        try:
            x = it.next_fn()
        except StopIter:
            return False
        if I.decide(x):
            return True


@_bi('all')
def _all(I, a, k):
    if I.spec_mode:
        return conj(I, [I.truth(x) for x in I.iterate_all(a[0])])
    it = I.get_iter(a[0])
    while True:
        try:
            x = it.next_fn()
        except StopIter:
            return True
        if not I.decide(x):
            return False


@_bi('enumerate')
def _enumerate(I, a, k):
    start = a[1] if len(a) > 1 else k.get('start', 0)
    it = I.get_iter(a[0])
    st = {'i': start}

    def nxt():
        x = it.next_fn()
        i = st['i']
        st['i'] = binop(I, '+', i, 1)
        return (i, x)
    return GenIter(nxt)


@_bi('zip')
def _zip(I, a, k):
    its = [I.get_iter(x) for x in a]

    def nxt():
        return tuple(it.next_fn() for it in its)
    return GenIter(nxt)


@_bi('reversed')
def _reversed(I, a, k):
    return I.get_iter(tuple(reversed(I.iterate_all(a[0]))))


@_bi('sorted')
def _sorted(I, a, k):
    items = I.iterate_all(a[0])
    if any(is_sym(x) for x in items) or k:
        raise OutOfSubset('sorted on symbolic values / with key')
    return PList(sorted(items))


@_bi('iter')
def _iter(I, a, k):
    return I.get_iter(a[0])


@_bi('next')
def _next(I, a, k):
    try:
        return I.get_iter(a[0]).next_fn()
    except StopIter:
        if len(a) > 1:
            return a[1]
        I.raise_py('StopIteration')


@_bi('ord')
def _ord(I, a, k):
    v = a[0]
    if isinstance(v, str):
        if len(v) != 1:
            I.raise_py('TypeError', 'ord() expected a character')
        return ord(v)
    if isinstance(v, PStr) and len(v.chars) == 1:
        return v.chars[0]
    if isinstance(v, (PBytes, PBytearray)) and len(v.items) == 1:
        return v.items[0]
    I.raise_py('TypeError', 'ord() expected string of length 1')


@_bi('chr')
def _chr(I, a, k):
    v = a[0]
    if isinstance(v, int):
        return chr(v)
    return PStr([v])


@_bi('hex')
def _hex(I, a, k):
    if isinstance(a[0], int):
        return hex(a[0])
    raise OutOfSubset('hex(symbolic)')


@_bi('round')
def _round(I, a, k):
    if not is_sym(a[0]) and len(a) == 1:
        return round(a[0])
    raise OutOfSubset('round')


@_bi('divmod')
def _divmod(I, a, k):
    return (binop(I, '//', a[0], a[1]), binop(I, '%', a[0], a[1]))


@_bi('pow')
def _pow(I, a, k):
    return binop(I, '**', a[0], a[1])


@_bi('callable')
def _callable(I, a, k):
    return isinstance(a[0], (FuncVal, BoundMethod, Builtin, ClassVal, Ext))


@_bi('hasattr')
def _hasattr(I, a, k):
    try:
        I.getattr(a[0], a[1])
        return True
    except PyRaise as pr:
        if pr.exc.cls.name == 'AttributeError':
            return False
        raise


@_bi('getattr')
def _getattr(I, a, k):
    try:
        return I.getattr(a[0], a[1])
    except PyRaise as pr:
        if pr.exc.cls.name == 'AttributeError' and len(a) > 2:
            return a[2]
        raise


@_bi('setattr')
def _setattr(I, a, k):
    I.setattr(a[0], a[1], a[2])


@_bi('id')
def _id(I, a, k):
    return id(a[0])


@_bi('repr')
def _repr(I, a, k):
    v = a[0]
    if isinstance(v, (int, float, str, bool)) or v is None:
        return repr(v)
    return OpaqueStr('repr(%s)' % type_name(I, v), v)


@_bi('type')
def _type(I, a, k):
    v = a[0]
    if isinstance(v, Obj):
        return v.cls
    if isinstance(v, ExcVal):
        return v.cls
    n = type_name(I, v)
    if n in TYPES:
        return TYPES[n]
    raise OutOfSubset('type(%r)' % (v,))


@_bi('property')
def _property(I, a, k):
    return PropertyVal(a[0] if a else k.get('fget'), a[1] if len(a) > 1 else k.get('fset'))


@_bi('staticmethod')
def _staticmethod(I, a, k):
    return StaticMethod(a[0])


@_bi('classmethod')
def _classmethod(I, a, k):
    return ClassMethod(a[0])


@_bi('print')
def _print(I, a, k):
    return None


@_bi('format')
def _format(I, a, k):
    return format_value(I, a[0], a[1] if len(a) > 1 else '', -1)


# ------------------------------------------------------------------ strings

def str_chars(v):
    return [ord(c) for c in v] if isinstance(v, str) else list(v.chars)


def str_encode(I, s, enc):
    enc = enc.lower().replace('_', '-') if isinstance(enc, str) else enc
    if isinstance(s, str):
        try:
            return PBytes(list(s.encode(enc)))
        except (UnicodeEncodeError, LookupError) as e:
            I.raise_py(type(e).__name__, str(e))
    if isinstance(s, PStr):
        out = []
        limit = {'iso-8859-1': 255, 'latin-1': 255, 'latin1': 255, 'ascii': 127, 'utf-8': 127, 'utf8': 127}.get(enc)
        if limit is None:
            raise OutOfSubset('encoding %s' % enc)
        for c in s.chars:
            if isinstance(c, int):
                ok = c <= limit
            else:
                ok = I.path.decide(zterm(c) <= limit)
            if not ok:
                if enc in ('utf-8', 'utf8'):
                    raise OutOfSubset('utf-8 encoding of non-ASCII symbolic characters')
                I.raise_py('UnicodeEncodeError', 'codec cannot encode character')
            out.append(c)
        return PBytes(out)
    raise OutOfSubset('encode of %r' % (s,))


def bytes_decode(I, b, enc='utf-8'):
    enc = enc.lower().replace('_', '-')
    if isinstance(b, SSeq):
        raise OutOfSubset('decode of a symbolic-length byte string')
    items = list(b.items)
    if all(isinstance(x, int) for x in items):
        try:
            return bytes(items).decode(enc)
        except (UnicodeDecodeError, LookupError) as e:
            I.raise_py(type(e).__name__, str(e))
    if enc in ('iso-8859-1', 'latin-1', 'latin1'):
        return ops.mk_seq('str', items)
    if enc in ('ascii', 'utf-8', 'utf8'):
        for c in items:
            if not isinstance(c, int) and not I.path.decide(zterm(c) < 128):
                if enc == 'ascii':
                    I.raise_py('UnicodeDecodeError', 'ascii codec cannot decode byte')
                raise OutOfSubset('utf-8 decoding of non-ASCII symbolic bytes')
        return ops.mk_seq('str', items)
    raise OutOfSubset('decoding %s' % enc)


def format_value(I, v, spec, conversion):
    if conversion == ord('r'):
        v = _repr(I, [v], {})
    elif conversion == ord('s'):
        v = to_str(I, v)
    if isinstance(v, Opaque):
        return OpaqueStr('format(%s)' % v.what, v)
    if not is_sym(v) and not isinstance(v, (PStr, PBytes, PBytearray, PList, PDict, Obj, Ext, ExcVal, tuple)):
        try:
            return format(v, spec)
        except (ValueError, TypeError) as e:
            I.raise_py(type(e).__name__, str(e))
    if isinstance(v, PStr) and spec == '':
        return v
    if isinstance(v, PStr) and isinstance(spec, str):
        from .models_uri import pad_str         # added for C20: '[[fill]align][width]' on a symbolic string
        r = pad_str(I, v, spec)
        if r is not None:
            return r
    if isinstance(v, SInt) and isinstance(spec, str) and len(spec) > 2 and spec[1] in '<>' and spec[2:3] != '0':
        # added for C20: '{fill}{align}{width}{X|x|d}' = the unpadded digits, then padded as a string
        import re as _re
        m = _re.fullmatch(r'(.)([<>])(\d+)([Xxd]?)', spec)
        if m:
            from .models_uri import pad_str
            digits = fmt_symbolic_int(I, v, m.group(4))
            if not isinstance(digits, Opaque):
                return pad_str(I, digits, m.group(1) + m.group(2) + m.group(3))
    if isinstance(v, SInt):
        return fmt_symbolic_int(I, v, spec)
    if isinstance(v, tuple) and all(not is_sym(x) and isinstance(x, (int, str, float)) for x in v) and spec == '':
        return str(v)
    return OpaqueStr('format(%s,%r)' % (type_name(I, v), spec), v)


def fmt_symbolic_int(I, v, spec):
    """Formatting a symbolic int: supports X/x/d with optional zero padding by case split on the
    digit count when a bound is provable, else opaque."""
    import re
    m = re.fullmatch(r'(0?)(\d*)([Xxd]?)', spec)
    if not m:
        return OpaqueStr('format(int,%r)' % spec, v)
    zero, width, code = m.group(1), m.group(2), m.group(3) or 'd'
    base = 16 if code in 'Xx' else 10
    width = int(width) if width else 0
    if zero == '' and width:
        pad = ' '
    else:
        pad = '0'
    if not I.path.must(v.t >= 0):
        return OpaqueStr('format(int,%r)' % spec, v)
    # find digit count by branching (bounded)
    nd = None
    for d in range(1, 21):
        if I.path.decide(v.t < base ** d):
            nd = d
            break
    if nd is None:
        raise OutOfSubset('formatting unbounded int')
    chars = []
    for i in range(nd - 1, -1, -1):
        dig = (v.t / (base ** i)) % base
        if base == 10:
            chars.append(mk_int(dig + 48))
        else:
            a = 55 if code == 'X' else 87
            chars.append(mk_int(z3.If(dig < 10, dig + 48, dig + a)))
    chars = [ord(pad)] * max(0, width - nd) + chars
    return ops.mk_seq('str', chars)


def str_percent(I, fmt, arg):
    if isinstance(fmt, str):
        args = list(arg) if isinstance(arg, tuple) else [arg]
        if all(not is_sym(x) and isinstance(x, (int, float, str)) for x in args):
            try:
                return fmt % (tuple(args) if isinstance(arg, tuple) else arg)
            except (TypeError, ValueError) as e:
                I.raise_py(type(e).__name__, str(e))
        # split on conversion specs
        import re
        parts = re.split(r'(%[-#0 +]*\d*(?:\.\d+)?[sdiXxrf%])', fmt)
        out = ''
        ai = 0
        for p in parts:
            if p.startswith('%') and len(p) > 1:
                if p == '%%':
                    out = ops.seq_concat(I, out, '%') if not isinstance(out, Opaque) else out
                    continue
                if ai >= len(args):
                    I.raise_py('TypeError', 'not enough arguments for format string')
                a = args[ai]
                ai += 1
                code = p[-1]
                if code in 'sr':
                    piece = to_str(I, a) if p == '%s' else OpaqueStr('%' + code)
                elif code in 'dXxi':
                    if not is_intlike(a) and not is_floatlike(a):
                        I.raise_py('TypeError', '%%%s format: a real number is required, not %s' % (code, type_name(I, a)))
                    flags = p[1:-1]
                    piece = format_value(I, a, flags + ('d' if code == 'i' else code), -1) if is_sym(a) else (p % a)
                else:
                    piece = OpaqueStr('%' + code)
                if isinstance(piece, Opaque) or isinstance(out, Opaque):
                    out = OpaqueStr('percent-format')
                else:
                    out = ops.seq_concat(I, out, piece)
            elif not isinstance(out, Opaque):
                out = ops.seq_concat(I, out, p)
        if ai < len(args):
            I.raise_py('TypeError', 'not all arguments converted during string formatting')
        return out
    raise OutOfSubset('% on symbolic format string')


from . import models2 as _m2   # noqa: E402  (container methods, externals)
for _n in ('getattr', 'getitem', 'setitem', 'seq_extend', 'coerce_iter_for_extend', 'set_slice', 'external_module',
           'external_attr', 'external_class_attr', 'external_class_method', 'external_base_attr', 'external_init',
           'instantiate_special', 'call_other', 'ExtClass', 'EXTERNALS'):
    globals()[_n] = _b.getattr(_m2, 'value_getattr' if _n == 'getattr' else _n)
