"""Contract registry.  Imported by contract files under both interpreters (no z3 import here).

A contract is a function `k(c)` that, through the context `c`, declares the symbolic inputs of one
real function of the repository, states pre-conditions, runs the function (`c.call`) and states
post-conditions as Python expressions.  The same function object is executed by two back ends:

  * pyvc.symctx.SymCtx   - symbolic: every path of the real function's AST, obligations to z3/cvc5
  * pyvc.nativectx.NativeCtx - concrete: builds real objects of the real classes under
    /venv/bin/python from a solver model (replay of counterexamples, per-path concordance witnesses)
"""

REGISTRY = {}     # property id -> list of Contract


class Contract:
    def __init__(self, prop, name, fn, funcs, clause, opts):
        self.prop = prop
        self.name = name
        self.fn = fn
        self.funcs = funcs          # functions of the repository under this contract
        self.clause = clause
        self.opts = opts

    @property
    def ident(self):
        return '%s/%s' % (self.prop, self.name)


def contract(prop, name, funcs, clause='', **opts):
    """Register a contract.  funcs: list of 'module:Qual.name' the contract puts under proof."""
    def deco(fn):
        REGISTRY.setdefault(prop, []).append(Contract(prop, name, fn, list(funcs), clause, opts))
        return fn
    return deco


def load(prop):
    import importlib
    importlib.import_module('contracts.' + prop)
    return REGISTRY.get(prop, [])
