import os
import sys


def main(argv):
    prop = argv[0]
    rest = argv[1:]
    tier = os.environ.get('VERIF_TIER', 'quick')
    only = None
    verbose = False
    i = 0
    while i < len(rest):
        a = rest[i]
        if a in ('quick', 'thorough'):
            tier = a
        elif a == '--replay':
            from . import runner
            return runner.replay(prop, rest[i + 1])
        elif a == '--only':
            only = rest[i + 1].split(',')
            i += 1
        elif a == '-v':
            verbose = True
        i += 1
    seed = int(os.environ.get('VERIF_SEED', '0'))
    from . import runner
    return runner.check_property(prop, tier, seed, only, verbose)


if __name__ == '__main__':
    sys.exit(main(sys.argv[1:]))
