"""Symbolic interpreter for the Python subset used by the functions under contract.

The interpreter walks the *ast of the real source files* under the repository root; nothing is
translated or copied.  See DESIGN.md section 2.
"""
import ast
import os
import z3

from .values import *
from .core import *
from . import ops
from .ops import (zterm, zint, mk_int, mk_bool, zbool, is_intlike, is_floatlike, is_number, is_seq,
                  seq_items, py_eq, compare, binop, unop, conj, disj, neg)


class _Return(Exception):
    def __init__(self, value):
        self.value = value


class _Break(Exception):
    pass


class _Continue(Exception):
    pass


class Frame:
    def __init__(self, module, parent=None, func=None, is_class_body=False):
        self.vars = {}
        self.module = module
        self.parent = parent
        self.func = func
        self.globals_decl = set()
        self.nonlocals_decl = set()
        self.is_class_body = is_class_body
        self.loop_ordinal = 0

    def lookup(self, name):
        f = self
        first = True
        while f is not None:
            if (first or not f.is_class_body) and name in f.vars:
                return f.vars[name], True
            first = False
            f = f.parent
        return None, False

    def assign(self, name, value):
        if name in self.globals_decl:
            self.module.attrs[name] = value
            return
        if name in self.nonlocals_decl:
            f = self.parent
            while f is not None:
                if name in f.vars and not f.is_class_body:
                    f.vars[name] = value
                    return
                f = f.parent
            raise OutOfSubset('nonlocal %s not found' % name)
        self.vars[name] = value


DROPPED_RECEIVERS = ('logger', 'logging', 'warnings', 'traceback')


def _mangle_private_names(cls_node):
    """CPython's private name mangling: inside a class body every identifier __x (no trailing __) stands for _Class__x"""
    if getattr(cls_node, '_mangled', False):
        return
    cls_node._mangled = True
    owner = cls_node.name.lstrip('_')
    if not owner:
        return

    def m(name):
        if isinstance(name, str) and name.startswith('__') and not name.endswith('__') and '.' not in name:
            return '_%s%s' % (owner, name)
        return name

    def walk(node):
        for child in ast.iter_child_nodes(node):
            if isinstance(child, ast.ClassDef):
                child.name = m(child.name)
                for sub in child.bases + child.keywords + child.decorator_list:
                    fix(sub)
                    walk(sub)
                continue            # its body is mangled with its own name when it is executed
            fix(child)
            walk(child)

    def fix(n):
        if isinstance(n, ast.Attribute):
            n.attr = m(n.attr)
        elif isinstance(n, ast.Name):
            n.id = m(n.id)
        elif isinstance(n, (ast.FunctionDef, ast.AsyncFunctionDef)):
            n.name = m(n.name)
        elif isinstance(n, ast.arg):
            n.arg = m(n.arg)
        elif isinstance(n, ast.keyword) and n.arg:
            n.arg = m(n.arg)
    for stmt in cls_node.body:
        fix(stmt)
        walk(stmt)


class Interp:
    def __init__(self, repo_root, path, cfg=None, modules=None):
        self.repo_root = repo_root
        self.path = path
        self.cfg = cfg or {}
        self.modules = modules if modules is not None else {}
        self.float_mode = self.cfg.get('float_mode', 'FP')
        self.trace = []
        self.assumptions = set()
        self.summaries = {}
        self.loop_specs = {}
        self.call_depth = 0
        self.spec_mode = 0
        self.dropped = set()
        self.interpreted = set()         # repository functions whose real body was executed symbolically
        self.obligation_sink = None     # callable(kind, name, cond, info)
        self.exc_classes = {}
        self.time_now = None
        from . import models
        self.models = models
        models.install(self)

    # ------------------------------------------------------------------ helpers
    def note_assumption(self, text):
        self.assumptions.add(text)

    def raise_py(self, clsname, *args):
        raise PyRaise(ExcVal(self.exc_class(clsname), args))

    def exc_class(self, name):
        return self.models.exc_class(self, name)

    def _log_fresh(self, t, kind):
        if not hasattr(self.path, 'fresh_log'):
            self.path.fresh_log = []
        self.path.fresh_log.append((t.decl().name(), kind, t))

    def fresh_int(self, base, lo=None, hi=None):
        t = z3.Int(self.path.fresh_name(base))
        self._log_fresh(t, 'int')
        if lo is not None:
            self.path.assume(t >= lo)
        if hi is not None:
            self.path.assume(t <= hi)
        return SInt(t)

    def fresh_bool(self, base):
        t = z3.Bool(self.path.fresh_name(base))
        self._log_fresh(t, 'bool')
        return SBool(t)

    def fresh_float(self, base):
        if self.float_mode == 'R':
            t = z3.Real(self.path.fresh_name(base))
            self._log_fresh(t, 'float')
            return SReal(t)
        t = z3.FP(self.path.fresh_name(base), F64)
        self._log_fresh(t, 'float')
        return SFloat(t)

    def type_name(self, v):
        return self.models.type_name(self, v)

    def truth(self, v):
        """python bool or SBool"""
        if v is None:
            return False
        if isinstance(v, bool):
            return v
        if isinstance(v, SBool):
            return v
        if isinstance(v, int):
            return v != 0
        if isinstance(v, float):
            return v != 0.0
        if isinstance(v, SInt):
            return mk_bool(v.t != 0)
        if isinstance(v, SFloat):
            return mk_bool(z3.Not(z3.fpIsZero(v.t)))
        if isinstance(v, SReal):
            return mk_bool(v.t != 0)
        if isinstance(v, str):
            return len(v) > 0
        if isinstance(v, PStr):
            return len(v.chars) > 0
        if isinstance(v, SSeq):
            return mk_bool(z3.Length(v.t) > 0)
        if isinstance(v, SView):
            return True if v.pre else mk_bool(ops.zi(v.ln) > 0)
        if isinstance(v, (PList, PBytearray, PBytes, tuple)):
            return len(seq_items(v)) > 0
        if isinstance(v, PDict):
            return len(v.keys) > 0
        if isinstance(v, PSet):
            return len(v.items) > 0
        if isinstance(v, Obj):
            m = self.find_method(v, '__bool__')
            if m is not None:
                return self.truth(self.call(m, [], {}))
            m = self.find_method(v, '__len__')
            if m is not None:
                return self.truth(self.call(m, [], {}))
            return True
        if isinstance(v, Ext):
            return v.truthy
        if isinstance(v, Opaque) or getattr(v, 'np_array', False):
            raise OutOfSubset('truth value of %r' % (v,))
        return True

    def decide(self, v):
        t = self.truth(v)
        if isinstance(t, bool):
            return t
        if self.spec_mode:
            raise OutOfSubset('spec expression branches on a symbolic condition')
        return self.path.decide(t.t)

    def find_method(self, obj, name):
        if isinstance(obj, Obj):
            v, owner = obj.cls.lookup(name)
            if isinstance(v, FuncVal):
                return BoundMethod(v, obj)
        return None

    # ------------------------------------------------------------------ modules
    def module_path(self, modname):
        p = os.path.join(self.repo_root, *modname.split('.'))
        if os.path.isdir(p) and os.path.exists(os.path.join(p, '__init__.py')):
            return os.path.join(p, '__init__.py'), True
        if os.path.exists(p + '.py'):
            return p + '.py', False
        return None, False

    def load_module(self, modname):
        if modname in self.modules:
            return self.modules[modname]
        path, is_pkg = self.module_path(modname)
        if path is None:
            m = self.models.external_module(self, modname)
            self.modules[modname] = m
            return m
        m = ModuleVal(modname, path)
        m.is_pkg = is_pkg
        self.modules[modname] = m
        src = open(path).read()
        tree = ast.parse(src, path)
        m.tree = tree
        m.attrs['__name__'] = modname
        fr = Frame(m)
        fr.vars = m.attrs
        saved_path = self.path
        for st in tree.body:
            try:
                self.exec_stmt(st, fr)
            except (OutOfSubset, PyRaise, EngineError) as e:
                # lenient module level: names bound by the failing statement become opaque
                for nm in _assigned_names(st):
                    m.attrs.setdefault(nm, Opaque('module-level %s.%s (%s)' % (modname, nm, e)))
        return m

    def resolve(self, ref):
        """'pkg.mod:Class.method' -> value"""
        modname, _, qual = ref.partition(':')
        m = self.load_module(modname)
        if not isinstance(m, ModuleVal) or m.path is None:
            raise EngineError('module %s is not part of the repository' % modname)
        v = m
        for part in qual.split('.') if qual else []:
            if isinstance(v, ModuleVal):
                if part not in v.attrs:
                    raise EngineError('%s: no %s in module' % (ref, part))
                v = v.attrs[part]
            elif isinstance(v, ClassVal):
                a, _ = v.lookup(part)
                if a is None:
                    raise EngineError('%s: no %s in class %s' % (ref, part, v.name))
                v = a
            else:
                raise EngineError('%s: cannot descend into %r' % (ref, v))
        if isinstance(v, Opaque):
            raise EngineError('%s is opaque: %s' % (ref, v.what))
        return v

    # ------------------------------------------------------------------ statements
    def exec_block(self, body, fr):
        for st in body:
            self.exec_stmt(st, fr)

    def exec_stmt(self, st, fr):
        m = getattr(self, 'st_' + type(st).__name__, None)
        if m is None:
            raise OutOfSubset('statement %s at line %d' % (type(st).__name__, st.lineno))
        return m(st, fr)

    def st_Pass(self, st, fr):
        pass

    def st_Expr(self, st, fr):
        if isinstance(st.value, ast.Constant):
            return      # docstring
        if self.is_dropped_call(st.value, fr):
            self.eval_dropped_args(st.value, fr)
            return
        self.eval(st.value, fr)

    def eval_dropped_args(self, e, fr):
        """The CALL of a logging / print function is dropped, but Python evaluates its argument expressions first and those
        can raise (an attribute that does not exist, a key that is missing): evaluate them for their exceptions.  Arguments
        the engine has no rule for are skipped (assumed not to raise; listed as an assumption)."""
        if self.spec_mode:
            return
        for a in list(e.args) + [k.value for k in e.keywords]:
            if isinstance(a, ast.Constant):
                continue
            self.path.no_fork = getattr(self.path, 'no_fork', 0) + 1
            try:
                self.eval(a.value if isinstance(a, ast.Starred) else a, fr)
            except (OutOfSubset, EngineError, Budget):
                self.note_assumption('an argument expression of a dropped logging/print call could not be evaluated and is assumed not to raise')
            finally:
                self.path.no_fork -= 1

    def is_dropped_call(self, e, fr=None):
        if isinstance(e, ast.Call):
            f = e.func
            if isinstance(f, ast.Attribute) and isinstance(f.value, ast.Name) and f.value.id in DROPPED_RECEIVERS:
                if fr is not None and isinstance(fr.module.attrs.get(f.value.id), Ext):
                    return False        # a contract replaced the module's logger by a stub (c.patch): the call is real
                self.dropped.add('%s.%s' % (f.value.id, f.attr))
                return True
            if isinstance(f, ast.Name) and f.id == 'print':
                self.dropped.add('print')
                return True
            if isinstance(f, ast.Attribute) and isinstance(f.value, ast.Attribute) and \
                    isinstance(f.value.value, ast.Name) and f.value.value.id == 'sys' and f.value.attr in ('stdout', 'stderr'):
                self.dropped.add('sys.%s.%s' % (f.value.attr, f.attr))
                return True
        return False

    def st_Assign(self, st, fr):
        v = self.eval(st.value, fr)
        for tgt in st.targets:
            self.assign(tgt, v, fr)

    def st_AnnAssign(self, st, fr):
        if st.value is not None:
            self.assign(st.target, self.eval(st.value, fr), fr)

    def st_AugAssign(self, st, fr):
        op = _BINOPS[type(st.op)]
        tgt = st.target
        if isinstance(tgt, ast.Name):
            cur = self.eval(tgt, fr)
            new = self.inplace(op, cur, self.eval(st.value, fr))
            self.assign(tgt, new, fr)
        elif isinstance(tgt, ast.Attribute):
            o = self.eval(tgt.value, fr)
            cur = self.getattr(o, tgt.attr)
            new = self.inplace(op, cur, self.eval(st.value, fr))
            self.setattr(o, tgt.attr, new)
        elif isinstance(tgt, ast.Subscript):
            o = self.eval(tgt.value, fr)
            k = self.eval_index(tgt.slice, fr)
            cur = self.getitem(o, k)
            new = self.inplace(op, cur, self.eval(st.value, fr))
            self.setitem(o, k, new)
        else:
            raise OutOfSubset('augassign target')

    def inplace(self, op, cur, val):
        # in-place mutation for mutable sequences (identity is kept)
        if getattr(cur, 'np_array', False):     # numpy arrays: `a *= s` mutates a (numpy_model.py)
            from . import numpy_model
            return numpy_model.inplace(self, op, cur, val)
        if op == '+' and isinstance(cur, (PList, PBytearray)):
            self.models.seq_extend(self, cur, val)
            return cur
        if op == '+' and isinstance(cur, SView) and cur.kind in ('list', 'bytearray'):
            r = ops.seq_concat(self, cur, self.models.coerce_iter_for_extend(self, cur, val))
            if isinstance(r, SView):
                cur.arr, cur.off, cur.ln, cur.pre = r.arr, r.off, r.ln, r.pre
                return cur
            return r
        if op == '+' and isinstance(cur, SSeq) and cur.kind in ('list', 'bytearray'):
            cur.t = z3.Concat(cur.t, ops.seq_term(self.models.coerce_iter_for_extend(self, cur, val)))
            return cur
        return binop(self, op, cur, val)

    def assign(self, tgt, v, fr):
        if isinstance(tgt, ast.Name):
            fr.assign(tgt.id, v)
        elif isinstance(tgt, ast.Attribute):
            self.setattr(self.eval(tgt.value, fr), tgt.attr, v)
        elif isinstance(tgt, ast.Subscript):
            self.setitem(self.eval(tgt.value, fr), self.eval_index(tgt.slice, fr), v)
        elif isinstance(tgt, (ast.Tuple, ast.List)):
            items = self.iterate_all(v)
            if any(isinstance(e, ast.Starred) for e in tgt.elts):
                raise OutOfSubset('starred assignment')
            if len(items) != len(tgt.elts):
                self.raise_py('ValueError', 'not enough values to unpack' if len(items) < len(tgt.elts)
                              else 'too many values to unpack')
            for e, x in zip(tgt.elts, items):
                self.assign(e, x, fr)
        else:
            raise OutOfSubset('assignment target %s' % type(tgt).__name__)

    def st_Delete(self, st, fr):
        for tgt in st.targets:
            if isinstance(tgt, ast.Subscript):
                self.delitem(self.eval(tgt.value, fr), self.eval_index(tgt.slice, fr))
            elif isinstance(tgt, ast.Name):
                fr.vars.pop(tgt.id, None)
            else:
                raise OutOfSubset('del target')

    def st_If(self, st, fr):
        if self.decide(self.eval(st.test, fr)):
            self.exec_block(st.body, fr)
        else:
            self.exec_block(st.orelse, fr)

    def st_Return(self, st, fr):
        raise _Return(self.eval(st.value, fr) if st.value is not None else None)

    def st_Break(self, st, fr):
        raise _Break()

    def st_Continue(self, st, fr):
        raise _Continue()

    def st_Global(self, st, fr):
        fr.globals_decl.update(st.names)

    def st_Nonlocal(self, st, fr):
        fr.nonlocals_decl.update(st.names)

    def st_Assert(self, st, fr):
        if not self.decide(self.eval(st.test, fr)):
            self.raise_py('AssertionError')

    def st_Raise(self, st, fr):
        if st.exc is None:
            cur = getattr(fr, 'handling', None)
            if cur is None:
                self.raise_py('RuntimeError', 'No active exception to reraise')
            raise PyRaise(cur)
        v = self.eval(st.exc, fr)
        if isinstance(v, ExcClass):
            v = ExcVal(v, ())
        if isinstance(v, (str, int, float, PStr, PBytes, PList, tuple)) or v is None:
            self.raise_py('TypeError', 'exceptions must derive from BaseException')
        if not isinstance(v, ExcVal):
            raise OutOfSubset('raise of %r' % (v,))
        if st.cause is not None:
            v.cause = self.eval(st.cause, fr)
        raise PyRaise(v)

    def st_Try(self, st, fr):
        try:
            try:
                self.exec_block(st.body, fr)
            except PyRaise as pr:
                handled = False
                for h in st.handlers:
                    if self.exc_matches(pr.exc, h.type, fr):
                        handled = True
                        if h.name:
                            fr.assign(h.name, pr.exc)
                        saved = getattr(fr, 'handling', None)
                        fr.handling = pr.exc
                        try:
                            self.exec_block(h.body, fr)
                        finally:
                            fr.handling = saved
                        break
                if not handled:
                    raise
            else:
                self.exec_block(st.orelse, fr)
        finally:
            if st.finalbody:
                # NB: host `finally` also runs for engine exceptions; only run for program flow
                import sys
                et = sys.exc_info()[0]
                if et is None or issubclass(et, (PyRaise, _Return, _Break, _Continue)):
                    self.exec_block(st.finalbody, fr)

    def exc_matches(self, exc, type_node, fr):
        if type_node is None:
            return True
        t = self.eval(type_node, fr)
        ts = list(t) if isinstance(t, tuple) else [t]
        for c in ts:
            if isinstance(c, ExcClass):
                if exc.cls.is_sub(c):
                    return True
            elif isinstance(c, ClassVal):
                ec = self.models.excclass_of_classval(self, c)
                if ec is not None and exc.cls.is_sub(ec):
                    return True
            else:
                raise OutOfSubset('except %r' % (c,))
        return False

    def st_With(self, st, fr):
        mgrs = []
        for item in st.items:
            cm = self.eval(item.context_expr, fr)
            enter = self.getattr(cm, '__enter__')
            v = self.call(enter, [], {})
            if item.optional_vars is not None:
                self.assign(item.optional_vars, v, fr)
            mgrs.append(cm)
        try:
            self.exec_block(st.body, fr)
        except PyRaise as pr:
            suppress = False
            for cm in reversed(mgrs):
                r = self.call(self.getattr(cm, '__exit__'), [pr.exc.cls, pr.exc, None], {})
                if self.decide(r):
                    suppress = True
            if not suppress:
                raise
        except (_Return, _Break, _Continue):
            for cm in reversed(mgrs):
                self.call(self.getattr(cm, '__exit__'), [None, None, None], {})
            raise
        else:
            for cm in reversed(mgrs):
                self.call(self.getattr(cm, '__exit__'), [None, None, None], {})

    def st_Import(self, st, fr):
        for a in st.names:
            full = a.name
            if a.asname:
                fr.assign(a.asname, self.load_module(full))
            else:
                top = full.split('.')[0]
                topm = self.load_module(top)
                # bind submodules as attributes along the dotted path
                cur = topm
                parts = full.split('.')
                for i in range(1, len(parts)):
                    sub = self.load_module('.'.join(parts[:i + 1]))
                    if isinstance(cur, ModuleVal):
                        cur.attrs.setdefault(parts[i], sub)
                    cur = sub
                fr.assign(top, topm)

    def st_ImportFrom(self, st, fr):
        modname = st.module or ''
        if st.level:
            base = fr.module.name.split('.')
            if not getattr(fr.module, 'is_pkg', False):
                base = base[:-1]
            if st.level > 1:
                base = base[:-(st.level - 1)]
            modname = '.'.join(base + ([modname] if modname else []))
        m = self.load_module(modname)
        for a in st.names:
            if a.name == '*':
                raise OutOfSubset('import *')
            if isinstance(m, ModuleVal) and a.name in m.attrs:
                v = m.attrs[a.name]
            else:
                # maybe a submodule
                p, _ = self.module_path(modname + '.' + a.name)
                if p is not None:
                    v = self.load_module(modname + '.' + a.name)
                elif isinstance(m, ModuleVal) and m.path is None:
                    v = self.models.external_attr(self, m, a.name)
                else:
                    v = Opaque('%s.%s (not found at import)' % (modname, a.name))
            fr.assign(a.asname or a.name, v)

    def st_FunctionDef(self, st, fr):
        fv = self.make_function(st, fr)
        for d in reversed(st.decorator_list):
            dv = self.eval_decorator(d, fr)
            fv = self.apply_decorator(dv, fv, fr)
        fr.assign(st.name, fv)

    def make_function(self, st, fr):
        defaults = [self.eval(d, fr) for d in st.args.defaults]
        kwdefaults = {a.arg: self.eval(d, fr) for a, d in zip(st.args.kwonlyargs, st.args.kw_defaults) if d is not None}
        owner = getattr(fr, 'class_being_defined', None)
        qn = (owner.qualname + '.' if owner else (fr.func.qualname + '.<locals>.' if fr.func else '')) + st.name
        closure = fr if (fr.func is not None or fr.is_class_body is False and fr.parent is not None) else None
        if fr.is_class_body:
            closure = fr.parent if fr.parent is not None and fr.parent.func is not None else None
        return FuncVal(st, closure, fr.module, qn, defaults, kwdefaults, owner)

    def eval_decorator(self, d, fr):
        if isinstance(d, ast.Attribute) and d.attr in ('setter', 'getter'):
            base = self.eval(d.value, fr)
            return ('prop_' + d.attr, base)
        return self.eval(d, fr)

    def apply_decorator(self, dv, fv, fr):
        if isinstance(dv, tuple) and dv and dv[0] == 'prop_setter':
            return PropertyVal(dv[1].fget, fv)
        if isinstance(dv, tuple) and dv and dv[0] == 'prop_getter':
            return PropertyVal(fv, dv[1].fset)
        if isinstance(dv, Builtin):
            if dv.name == 'property':
                return PropertyVal(fv, None)
            if dv.name == 'staticmethod':
                return StaticMethod(fv)
            if dv.name == 'classmethod':
                return ClassMethod(fv)
        raise OutOfSubset('decorator %r' % (dv,))

    def st_ClassDef(self, st, fr):
        _mangle_private_names(st)
        bases = [self.eval(b, fr) for b in st.bases]
        outer = getattr(fr, 'class_being_defined', None)
        qn = (outer.qualname + '.' if outer else '') + st.name
        cls = ClassVal(st.name, bases, fr.module, qn)
        cls.node = st
        cfr = Frame(fr.module, parent=fr, func=fr.func, is_class_body=True)
        cfr.class_being_defined = cls
        cfr.vars = cls.attrs
        for s in st.body:
            try:
                self.exec_stmt(s, cfr)
            except (OutOfSubset, EngineError) as e:
                for nm in _assigned_names(s):
                    cls.attrs.setdefault(nm, Opaque('class-level %s.%s (%s)' % (qn, nm, e)))
        if st.decorator_list:
            raise OutOfSubset('class decorator on %s' % st.name)
        hook = getattr(self.models, 'class_created', None)     # models of external base classes (enum.Enum)
        if hook is not None:
            hook(self, cls)
        fr.assign(st.name, cls)

    # ------------------------------------------------------------------ loops
    def st_While(self, st, fr):
        fr.loop_ordinal += 1
        spec = self.loop_spec_for(fr, st)
        if spec is not None:
            return self.loop_with_invariant(st, fr, spec, kind='while')
        n = 0
        bound = self.cfg.get('unroll', 64)
        while True:
            if not self.decide(self.eval(st.test, fr)):
                self.exec_block(st.orelse, fr)
                return
            try:
                self.exec_block(st.body, fr)
            except _Break:
                return
            except _Continue:
                pass
            n += 1
            if n > bound:
                raise Budget('while loop at line %d not exhausted after %d iterations (no invariant given)' % (st.lineno, bound))

    def st_For(self, st, fr):
        fr.loop_ordinal += 1
        spec = self.loop_spec_for(fr, st)
        it = self.get_iter(self.eval(st.iter, fr))
        if spec is not None:
            return self.loop_with_invariant(st, fr, spec, kind='for', it=it)
        n = 0
        bound = self.cfg.get('unroll_for', 4096)
        while True:
            try:
                x = it.next_fn()
            except StopIter:
                self.exec_block(st.orelse, fr)
                return
            self.assign(st.target, x, fr)
            try:
                self.exec_block(st.body, fr)
            except _Break:
                return
            except _Continue:
                pass
            n += 1
            if n > bound:
                raise Budget('for loop at line %d exceeds %d iterations' % (st.lineno, bound))

    def loop_spec_for(self, fr, st):
        if fr.func is None:
            return None
        return self.loop_specs.get((fr.func.qualname, st.lineno)) or self.loop_specs.get((fr.func.qualname, '#%d' % fr.loop_ordinal))

    def loop_with_invariant(self, st, fr, spec, kind, it=None):
        """Cut the loop with an inductive invariant.

        spec: dict(invariant=[expr strings], havoc=callable(I, fr) -> None that re-binds every
        variable / field the loop may modify to fresh symbolic values, variant=optional)"""
        if kind != 'while':
            return self.for_with_invariant(st, fr, spec, it)
        names = spec['names']
        tag = spec['tag']
        # 1. initiation
        for i, inv in enumerate(spec['invariant']):
            self.obligation('A', '%s/init/%d' % (tag, i), self.eval_spec(inv, fr), {'inv': inv})
        # 2. havoc everything the body can modify; check the declared set covers the syntactic one
        assigned = _assigned_in(st.body)
        missing = [n for n in assigned['names'] if n not in names and n not in spec.get('locals_ok', ())]
        if missing:
            raise EngineError('loop %s assigns %s not listed in havoc' % (tag, missing))
        spec['havoc'](self, fr)
        for inv in spec['invariant']:
            self.path.assume(self.spec_bool(self.eval_spec(inv, fr)))
        # 3. exit or one arbitrary iteration
        if not self.decide(self.eval(st.test, fr)):
            self.exec_block(st.orelse, fr)
            return
        variant0 = self.eval_spec(spec['variant'], fr) if spec.get('variant') else None
        try:
            self.exec_block(st.body, fr)
        except _Break:
            return
        except _Continue:
            pass
        for i, inv in enumerate(spec['invariant']):
            self.obligation('A', '%s/preserve/%d' % (tag, i), self.eval_spec(inv, fr), {'inv': inv})
        if variant0 is not None:
            v1 = self.eval_spec(spec['variant'], fr)
            self.obligation('A', '%s/variant' % tag, conj(self, [compare(self, '<', v1, variant0), compare(self, '>=', variant0, 0)]), {})
        raise PathAbort()

    def for_with_invariant(self, st, fr, spec, it):
        """`for TARGET in range(a, b)` cut by an invariant Inv(k), a <= k <= b, where the ghost name spec['index'] is the
        number of the next iteration.  Obligations: Inv(a); for an arbitrary k with Inv(k) and k < b the body (with
        TARGET = k) establishes Inv(k + 1) and spec['iteration_post']; after the loop Inv(b) may be assumed."""
        rng = getattr(it, 'range_val', None)
        if rng is None or rng.step != 1:
            raise OutOfSubset('loop invariants are supported for `for x in range(a, b)` only')
        if not isinstance(st.target, ast.Name):
            raise OutOfSubset('for-loop invariant: target must be a name')
        tag, kname = spec['tag'], spec.get('index', 'k')
        start, stop = rng.start, rng.stop
        stop_eff = self.models.ite(self, self.truth(compare(self, '<', stop, start)), start, stop) if (is_sym_any(start) or is_sym_any(stop)) else max(start, stop)
        fr.vars[kname] = start
        for i, inv in enumerate(spec['invariant']):
            self.obligation('A', '%s/init/%d' % (tag, i), self.eval_spec(inv, fr), {'inv': inv})
        assigned = _assigned_in(st.body)
        missing = [n for n in assigned['names'] if n not in spec['names'] and n != st.target.id]
        if missing:
            raise EngineError('loop %s assigns %s not listed in havoc' % (tag, missing))
        k = self.fresh_int(tag + '!k')
        self.path.assume(self.spec_bool(conj(self, [self.truth(compare(self, '<=', start, k)), self.truth(compare(self, '<=', k, stop_eff))])))
        fr.vars[kname] = k
        spec['havoc'](self, fr)
        for inv in spec['invariant']:
            self.path.assume(self.spec_bool(self.eval_spec(inv, fr)))
        if not self.decide(compare(self, '<', k, stop)):
            # loop finished: Inv(stop) holds; the target keeps its last value when at least one iteration ran
            if self.decide(compare(self, '>', stop, start)):
                fr.assign(st.target.id, binop(self, '-', stop, 1))
            self.exec_block(st.orelse, fr)
            return
        fr.assign(st.target.id, k)
        try:
            self.exec_block(st.body, fr)
        except _Break:
            return
        except _Continue:
            pass
        fr.vars[kname] = binop(self, '+', k, 1)
        for name, expr in spec.get('iteration_post', []):
            self.obligation('P', '%s/iteration/%s' % (tag, name), self.eval_spec(expr, fr), {'expr': expr})
        for i, inv in enumerate(spec['invariant']):
            self.obligation('A', '%s/preserve/%d' % (tag, i), self.eval_spec(inv, fr), {'inv': inv})
        raise PathAbort()

    # ------------------------------------------------------------------ obligations / spec
    def obligation(self, cls, name, cond, info):
        if self.obligation_sink is None:
            raise EngineError('obligation outside of a contract run')
        self.obligation_sink(cls, name, cond, info)

    def spec_bool(self, v):
        t = self.truth(v)
        return z3.BoolVal(t) if isinstance(t, bool) else t.t

    def eval_spec(self, expr, fr):
        """Evaluate a specification expression (string) in frame fr, without forking."""
        node = _parse_expr(expr)
        self.spec_mode += 1
        try:
            return self.eval(node, fr)
        finally:
            self.spec_mode -= 1

    # ------------------------------------------------------------------ iteration
    def get_iter(self, v):
        if isinstance(v, GenIter):
            return v
        if type(v).__name__ == 'NDArray':       # numpy arrays (numpy_model.py): read live; rows of a matrix
            return v.iterator(self)
        if isinstance(v, (PList, PBytearray)):
            st = {'i': 0}

            def nxt():
                if st['i'] >= len(v.items):
                    raise StopIter()
                x = v.items[st['i']]
                st['i'] += 1
                return x
            return GenIter(nxt)
        if isinstance(v, (tuple, PBytes, PStr, str)):
            if isinstance(v, str):
                items = list(v)
            elif isinstance(v, PStr):
                items = [ops.mk_seq('str', [c]) for c in v.chars]
            else:
                items = seq_items(v)
            st = {'i': 0}

            def nxt():
                if st['i'] >= len(items):
                    raise StopIter()
                x = items[st['i']]
                st['i'] += 1
                return x
            return GenIter(nxt)
        if isinstance(v, PDict):
            # live iteration, as CPython's dict iterator: a size change is detected at the next step
            st = {'i': 0, 'n': len(v.keys), 'snap': list(v.keys)}

            def nxt():
                if len(v.keys) != st['n']:
                    self.raise_py('RuntimeError', 'dictionary changed size during iteration')
                if any(a is not b for a, b in zip(st['snap'], v.keys)):
                    raise OutOfSubset('dict keys replaced (same size) during iteration')
                if st['i'] >= len(v.keys):
                    raise StopIter()
                x = v.keys[st['i']]
                st['i'] += 1
                return x
            return GenIter(nxt)
        if isinstance(v, PSet):
            return self.get_iter(tuple(self.set_order(v)))
        if isinstance(v, RangeVal):
            if not isinstance(v.step, int) or v.step == 0:
                raise OutOfSubset('range step')
            st = {'k': 0}

            def nxt():
                cur = binop(self, '+', v.start, st['k'] * v.step)
                c = compare(self, '<' if v.step > 0 else '>', cur, v.stop)
                if not self.decide(c):
                    raise StopIter()
                st['k'] += 1
                if st['k'] > self.cfg.get('unroll_for', 4096):
                    raise Budget('range iteration too long')
                return cur
            g = GenIter(nxt)
            g.range_val = v
            return g
        if isinstance(v, SView):
            return self.get_iter(tuple(ops.view_items(self, v)))
        if isinstance(v, SSeq):
            # only when the length is provably small: fork over it, then iterate the elements
            n = ops.small_value(self, mk_int(z3.Length(v.t)))
            return self.get_iter(tuple(mk_int(v.t[i]) for i in range(n)))
        if isinstance(v, Obj):
            m = self.find_method(v, '__iter__')
            if m is not None:
                it = self.call(m, [], {})
                if isinstance(it, Obj):
                    nm = self.find_method(it, '__next__')

                    def nxt():
                        try:
                            return self.call(nm, [], {})
                        except PyRaise as pr:
                            if pr.exc.cls.name == 'StopIteration':
                                raise StopIter()
                            raise
                    return GenIter(nxt)
                return self.get_iter(it)
        if v is None or is_number(v):
            self.raise_py('TypeError', "'%s' object is not iterable" % self.type_name(v))
        raise OutOfSubset('iteration over %r' % (v,))

    def set_order(self, v):
        """iteration order of a set: unspecified in Python (hash order; for str it changes from process to process), so every
        permutation is explored - the environment chooses"""
        items = list(v.items)
        if len(items) < 2:
            return items
        if len(items) > 4:
            raise OutOfSubset('iteration over a set of %d elements (order unspecified; more than 24 permutations)' % len(items))
        import itertools
        perms = list(itertools.permutations(range(len(items))))
        self.nondet_counter = getattr(self, 'nondet_counter', 0) + 1
        t = z3.Int('setorder!%d' % self.nondet_counter)
        self.path.assume(z3.And(t >= 0, t < len(perms)))
        if not hasattr(self, 'env_nondet'):
            self.env_nondet = []
        self.env_nondet.append('iteration order of a set')
        self.note_assumption('sets are iterated in every possible order (24 at most)')
        chosen = perms[-1]
        for i in range(len(perms) - 1):
            if self.path.decide(t == i):
                chosen = perms[i]
                break
        return [items[k] for k in chosen]

    def iterate_all(self, v):
        if isinstance(v, (tuple, PBytes)) or (isinstance(v, (PList, PBytearray))):
            return list(seq_items(v))
        if isinstance(v, SView):
            return ops.view_items(self, v)
        if isinstance(v, SSeq):
            n = ops.small_value(self, mk_int(z3.Length(v.t)))
            return [mk_int(v.t[i]) for i in range(n)]
        it = self.get_iter(v)
        out = []
        while True:
            try:
                out.append(it.next_fn())
            except StopIter:
                return out
            if len(out) > self.cfg.get('unroll_for', 4096):
                raise Budget('iteration too long')

    # ------------------------------------------------------------------ expressions
    def eval(self, e, fr):
        m = getattr(self, 'ex_' + type(e).__name__, None)
        if m is None:
            raise OutOfSubset('expression %s at line %s' % (type(e).__name__, getattr(e, 'lineno', '?')))
        return m(e, fr)

    def ex_Constant(self, e, fr):
        v = e.value
        if isinstance(v, bytes):
            return PBytes(list(v))
        if v is Ellipsis:
            raise OutOfSubset('Ellipsis')
        if isinstance(v, complex):
            raise OutOfSubset('complex')
        return v

    def ex_Name(self, e, fr):
        v, ok = fr.lookup(e.id)
        if ok:
            return v
        if e.id in fr.module.attrs:
            return fr.module.attrs[e.id]
        b = self.models.builtin(self, e.id)
        if b is not None:
            return b
        if self.spec_mode and e.id in self.spec_env:
            return self.spec_env[e.id]
        if self.spec_mode:
            raise EngineError('name %s is not defined in specification' % e.id)
        self.raise_py('NameError', "name '%s' is not defined" % e.id)

    spec_env = {}

    def ex_Tuple(self, e, fr):
        return tuple(self.eval_elts(e.elts, fr))

    def ex_List(self, e, fr):
        return PList(self.eval_elts(e.elts, fr))

    def ex_Set(self, e, fr):
        s = PSet()
        for x in self.eval_elts(e.elts, fr):
            self.models.set_add(self, s, x)
        return s

    def eval_elts(self, elts, fr):
        out = []
        for x in elts:
            if isinstance(x, ast.Starred):
                out.extend(self.iterate_all(self.eval(x.value, fr)))
            else:
                out.append(self.eval(x, fr))
        return out

    def ex_Dict(self, e, fr):
        d = PDict()
        for k, v in zip(e.keys, e.values):
            if k is None:
                src = self.eval(v, fr)
                for kk, vv in zip(src.keys, src.vals):
                    self.setitem(d, kk, vv)
            else:
                self.setitem(d, self.eval(k, fr), self.eval(v, fr))
        return d

    def ex_BinOp(self, e, fr):
        a = self.eval(e.left, fr)
        b = self.eval(e.right, fr)
        return binop(self, _BINOPS[type(e.op)], a, b)

    def ex_UnaryOp(self, e, fr):
        a = self.eval(e.operand, fr)
        return unop(self, _UNOPS[type(e.op)], a)

    def ex_BoolOp(self, e, fr):
        is_and = isinstance(e.op, ast.And)
        if self.spec_mode:
            # no forking in specifications: operands must be boolean-valued
            vals = [self.eval(x, fr) for x in e.values] if False else None
            acc = None
            parts = []
            for x in e.values:
                v = self.eval(x, fr)
                t = self.truth(v)
                if isinstance(t, bool):
                    if is_and and not t:
                        return False if not parts else conj(self, parts + [False])
                    if not is_and and t:
                        return True if not parts else disj(self, parts + [True])
                    continue
                parts.append(t)
            if not parts:
                return is_and
            return conj(self, parts) if is_and else disj(self, parts)
        v = None
        for x in e.values:
            v = self.eval(x, fr)
            t = self.decide(v)
            if is_and and not t:
                return v
            if not is_and and t:
                return v
        return v

    def ex_Compare(self, e, fr):
        left = self.eval(e.left, fr)
        parts = []
        for op, rn in zip(e.ops, e.comparators):
            right = self.eval(rn, fr)
            r = compare(self, _CMPOPS[type(op)], left, right)
            if len(e.ops) == 1:
                return r
            if self.spec_mode:
                t = self.truth(r)
                parts.append(t)
            else:
                if not self.decide(r):
                    return False
            left = right
        if self.spec_mode:
            return conj(self, parts)
        return True

    def ex_IfExp(self, e, fr):
        c = self.eval(e.test, fr)
        if self.spec_mode:
            t = self.truth(c)
            if isinstance(t, bool):
                return self.eval(e.body if t else e.orelse, fr)
            a = self.eval(e.body, fr)
            b = self.eval(e.orelse, fr)
            return self.models.ite(self, t, a, b)
        if self.decide(c):
            return self.eval(e.body, fr)
        return self.eval(e.orelse, fr)

    def ex_Attribute(self, e, fr):
        return self.getattr(self.eval(e.value, fr), e.attr)

    def ex_Subscript(self, e, fr):
        return self.getitem(self.eval(e.value, fr), self.eval_index(e.slice, fr))

    def eval_index(self, s, fr):
        if isinstance(s, ast.Slice):
            lo = self.eval(s.lower, fr) if s.lower is not None else None
            hi = self.eval(s.upper, fr) if s.upper is not None else None
            step = self.eval(s.step, fr) if s.step is not None else None
            return SliceVal(lo, hi, step)
        return self.eval(s, fr)

    def ex_Slice(self, e, fr):
        return self.eval_index(e, fr)

    def ex_Lambda(self, e, fr):
        fn = ast.FunctionDef(name='<lambda>', args=e.args, body=[ast.Return(value=e.body, lineno=e.lineno, col_offset=0)],
                             decorator_list=[], lineno=e.lineno, col_offset=0)
        defaults = [self.eval(d, fr) for d in e.args.defaults]
        qn = (fr.func.qualname + '.' if fr.func else '') + '<lambda>'
        return FuncVal(fn, fr, fr.module, qn, defaults, {}, None)

    def comp_iter(self, gens, fr, body_fn):
        """Run body_fn(frame) for each combination, eagerly."""
        def rec(i, cfr):
            if i == len(gens):
                body_fn(cfr)
                return
            g = gens[i]
            it = self.get_iter(self.eval(g.iter, cfr))
            while True:
                try:
                    x = it.next_fn()
                except StopIter:
                    return
                self.assign(g.target, x, cfr)
                if all(self.decide(self.eval(c, cfr)) for c in g.ifs):
                    rec(i + 1, cfr)
        cfr = Frame(fr.module, parent=fr, func=fr.func)
        if fr.is_class_body:
            cfr.parent = fr     # class-body comprehension: first iterable sees class scope
        rec(0, cfr)

    def ex_ListComp(self, e, fr):
        out = []
        self.comp_iter(e.generators, fr, lambda cfr: out.append(self.eval(e.elt, cfr)))
        return PList(out)

    def ex_SetComp(self, e, fr):
        s = PSet()
        self.comp_iter(e.generators, fr, lambda cfr: self.models.set_add(self, s, self.eval(e.elt, cfr)))
        return s

    def ex_DictComp(self, e, fr):
        d = PDict()
        self.comp_iter(e.generators, fr, lambda cfr: self.setitem(d, self.eval(e.key, cfr), self.eval(e.value, cfr)))
        return d

    def ex_GeneratorExp(self, e, fr):
        """Lazy, as in CPython: the first iterable is evaluated now, everything else on demand."""
        if len(e.generators) != 1:
            # eager fallback is observably different only under mutation during iteration
            out = []
            self.comp_iter(e.generators, fr, lambda cfr: out.append(self.eval(e.elt, cfr)))
            self.note_assumption('multi-clause generator expression evaluated eagerly')
            return self.get_iter(tuple(out))
        g = e.generators[0]
        it = self.get_iter(self.eval(g.iter, fr))
        cfr = Frame(fr.module, parent=fr, func=fr.func)

        def nxt():
            while True:
                x = it.next_fn()
                self.assign(g.target, x, cfr)
                if all(self.decide(self.eval(c, cfr)) for c in g.ifs):
                    return self.eval(e.elt, cfr)
        return GenIter(nxt)

    def ex_JoinedStr(self, e, fr):
        parts = []
        for v in e.values:
            if isinstance(v, ast.Constant):
                parts.append(v.value)
            else:
                val = self.eval(v.value, fr)
                spec = ''
                if v.format_spec is not None:
                    spec = self.ex_JoinedStr(v.format_spec, fr)
                parts.append(self.models.format_value(self, val, spec, v.conversion))
        if all(isinstance(p, str) for p in parts):
            return ''.join(parts)
        r = ''
        for p in parts:
            r = ops.seq_concat(self, r, p)
        return r

    def ex_Call(self, e, fr):
        if self.is_dropped_call(e, fr):
            self.eval_dropped_args(e, fr)
            return None
        # super()
        if isinstance(e.func, ast.Name) and e.func.id == 'super':
            return self.make_super(e, fr)
        if self.spec_mode and isinstance(e.func, ast.Name) and e.func.id == 'implies' and len(e.args) == 2:
            # lazy in the guard: implies(False, <anything, even ill-defined>) is True
            g = self.truth(self.eval(e.args[0], fr))
            if isinstance(g, SBool):
                g = mk_bool(self.path.reduce(g.t))      # the path condition may already decide the guard
            if g is False:
                return True
            r = self.truth(self.eval(e.args[1], fr))
            return disj(self, [neg(g), r])
        f = self.eval(e.func, fr)
        args = []
        for a in e.args:
            if isinstance(a, ast.Starred):
                args.extend(self.iterate_all(self.eval(a.value, fr)))
            else:
                args.append(self.eval(a, fr))
        kwargs = {}
        for k in e.keywords:
            if k.arg is None:
                d = self.eval(k.value, fr)
                if not isinstance(d, PDict):
                    raise OutOfSubset('** of non dict')
                for kk, vv in zip(d.keys, d.vals):
                    kwargs[kk] = vv
            else:
                kwargs[k.arg] = self.eval(k.value, fr)
        return self.call(f, args, kwargs, node=e)

    def make_super(self, e, fr):
        f = fr
        while f is not None and (f.func is None or f.func.owner is None):
            f = f.parent
        if f is None:
            raise OutOfSubset('super() outside method')
        owner = f.func.owner
        selfname = f.func.node.args.args[0].arg
        selfv, _ = f.lookup(selfname)
        return ('super', owner, selfv)

    # ------------------------------------------------------------------ attribute access
    def getattr(self, o, name):
        if isinstance(o, Obj):
            if name in o.attrs:
                return o.attrs[name]
            v, owner = o.cls.lookup(name)
            if owner is not None:
                return self.bind_class_attr(v, o, o.cls)
            if name == '__class__':
                return o.cls
            if name == '__dict__':
                return PDict(list(o.attrs.items()))
            ext = self.models.external_base_attr(self, o, name)
            if ext is not None:
                return ext
            self.raise_py('AttributeError', "'%s' object has no attribute '%s'" % (o.cls.name, name))
        if isinstance(o, tuple) and len(o) == 3 and o[0] == 'super':
            _, owner, selfv = o
            mro = selfv.cls.mro() if isinstance(selfv, Obj) else owner.mro()
            idx = mro.index(owner)
            for c in mro[idx + 1:]:
                if isinstance(c, ClassVal) and name in c.attrs:
                    return self.bind_class_attr(c.attrs[name], selfv, c)
                if not isinstance(c, ClassVal):
                    r = self.models.external_class_method(self, c, selfv, name)
                    if r is not None:
                        return r
            if name == '__init__':
                return Builtin('object.__init__', lambda I, a, k: None)
            raise OutOfSubset('super().%s' % name)
        if isinstance(o, ClassVal):
            v, owner = o.lookup(name)
            if owner is not None:
                if isinstance(v, StaticMethod):
                    return v.func
                if isinstance(v, ClassMethod):
                    return BoundMethod(v.func, o)
                return v
            if name == '__name__':
                return o.name
            for b in o.mro():
                if not isinstance(b, ClassVal):
                    r = self.models.external_class_attr(self, b, name)
                    if r is not None:
                        return r
            self.raise_py('AttributeError', "type object '%s' has no attribute '%s'" % (o.name, name))
        if isinstance(o, ModuleVal):
            if name in o.attrs:
                return o.attrs[name]
            if o.path is None:
                return self.models.external_attr(self, o, name)
            p, _ = self.module_path(o.name + '.' + name)
            if p is not None:
                return self.load_module(o.name + '.' + name)
            self.raise_py('AttributeError', "module '%s' has no attribute '%s'" % (o.name, name))
        if isinstance(o, Ext):
            if name in o.attrs:
                return o.attrs[name]
            if name.startswith('__') and name.endswith('__'):
                # as the native stub (a callable object / functools.partial-like callback has no __name__, __qualname__ ...)
                self.raise_py('AttributeError', "'%s' object has no attribute '%s'" % (o.name, name))
            if o.auto:
                child = Ext(o.name + '.' + name, returns=_sub_returns(o.returns, name))
                child.parent = o
                child.method_name = name
                o.attrs[name] = child
                return child
            raise OutOfSubset('attribute %s of external %s is not specified' % (name, o.name))
        return self.models.getattr(self, o, name)

    def bind_class_attr(self, v, obj, cls):
        if isinstance(v, FuncVal):
            return BoundMethod(v, obj)
        if isinstance(v, PropertyVal):
            if v.fget is None:
                self.raise_py('AttributeError', 'unreadable attribute')
            return self.call(v.fget, [obj], {})
        if isinstance(v, StaticMethod):
            return v.func
        if isinstance(v, ClassMethod):
            return BoundMethod(v.func, obj.cls if isinstance(obj, Obj) else cls)
        return v

    def setattr(self, o, name, v):
        if isinstance(o, Obj):
            cv, owner = o.cls.lookup(name)
            if isinstance(cv, PropertyVal):
                if cv.fset is None:
                    self.raise_py('AttributeError', "can't set attribute '%s'" % name)
                self.call(cv.fset, [o, v], {})
                return
            o.attrs[name] = v
            return
        if isinstance(o, ClassVal):
            o.attrs[name] = v
            self.note_assumption('class attribute %s.%s assigned at run time' % (o.name, name))
            return
        if isinstance(o, Ext):
            o.attrs[name] = v
            self.trace.append(('set:' + o.name + '.' + name, (v,), {}))
            return
        if isinstance(o, ModuleVal):
            o.attrs[name] = v
            return
        if isinstance(o, ExcVal):
            o.attrs[name] = v
            return
        raise OutOfSubset('setattr on %r' % (o,))

    # ------------------------------------------------------------------ items
    def dict_find(self, d, key):
        """index of key in d or None (forks on symbolic equality)."""
        for i, k in enumerate(d.keys):
            r = py_eq(self, k, key)
            if r is True:
                return i
            if r is False:
                continue
            if self.spec_mode:
                raise OutOfSubset('symbolic dict key in spec')
            if self.path.decide(r.t):
                return i
        return None

    def getitem(self, o, k):
        if isinstance(o, PDict):
            i = self.dict_find(o, k)
            if i is None:
                raise PyRaise(ExcVal(self.exc_class('KeyError'), (k,)))
            return o.vals[i]
        if isinstance(o, (PList, PBytearray, PBytes, tuple, str, PStr, SSeq, SView)):
            return ops.seq_getitem(self, o, k)
        if isinstance(o, Obj):
            m = self.find_method(o, '__getitem__')
            if m is not None:
                return self.call(m, [k], {})
        return self.models.getitem(self, o, k)

    def setitem(self, o, k, v):
        if isinstance(o, PDict):
            self.models.check_hashable(self, k)
            i = self.dict_find(o, k)
            if i is None:
                o.keys.append(k)
                o.vals.append(v)
            else:
                o.vals[i] = v
            return
        if isinstance(o, (PList, PBytearray)):
            if isinstance(k, SliceVal):
                return self.models.set_slice(self, o, k, v)
            j = ops.norm_index(self, o, k, len(o.items))
            if isinstance(o, PBytearray):
                v = ops.byte_check(self, v)
            if isinstance(j, int):
                o.items[j] = v
            else:
                if not all(is_intlike(x) for x in o.items + [v]):
                    for kk in range(len(o.items)):
                        if self.path.decide(j == kk):
                            o.items[kk] = v
                            return
                o.items = [mk_int(z3.If(j == kk, zterm(v), zterm(x))) for kk, x in enumerate(o.items)]
            return
        if isinstance(o, (tuple, PBytes, str)):
            self.raise_py('TypeError', "'%s' object does not support item assignment" % self.type_name(o))
        if isinstance(o, Obj):
            m = self.find_method(o, '__setitem__')
            if m is not None:
                self.call(m, [k, v], {})
                return
        return self.models.setitem(self, o, k, v)

    def delitem(self, o, k):
        if isinstance(o, PDict):
            i = self.dict_find(o, k)
            if i is None:
                raise PyRaise(ExcVal(self.exc_class('KeyError'), (k,)))
            del o.keys[i]
            del o.vals[i]
            return
        if isinstance(o, (PList, PBytearray)):
            if isinstance(k, SliceVal):
                n = len(o.items)
                lo = ops.concretize_bound(self, k.lo, n)
                hi = ops.concretize_bound(self, k.hi, n)
                lo, hi = ops.clamp_slice(self, lo, hi, n)
                del o.items[lo:hi]
                return
            j = ops.norm_index(self, o, k, len(o.items))
            if not isinstance(j, int):
                for kk in range(len(o.items)):
                    if self.path.decide(j == kk):
                        j = kk
                        break
            del o.items[j]
            return
        raise OutOfSubset('del item on %r' % (o,))

    # ------------------------------------------------------------------ calls
    def call(self, f, args, kwargs, node=None):
        if isinstance(f, BoundMethod):
            return self.call(f.func, [f.self_obj] + list(args), kwargs, node)
        if isinstance(f, FuncVal):
            return self.call_function(f, args, kwargs)
        if isinstance(f, Builtin):
            return f.fn(self, list(args), kwargs)
        if isinstance(f, ClassVal):
            return self.instantiate(f, args, kwargs)
        if isinstance(f, ExcClass):
            return ExcVal(f, args)
        if isinstance(f, Ext):
            return self.call_ext(f, args, kwargs)
        if isinstance(f, StaticMethod):
            return self.call(f.func, args, kwargs)
        if isinstance(f, Obj):
            m = self.find_method(f, '__call__')
            if m is not None:
                return self.call(m, args, kwargs)
        if f is None:
            self.raise_py('TypeError', "'NoneType' object is not callable")
        if isinstance(f, Opaque):
            raise OutOfSubset('call of %r' % (f,))
        r = self.models.call_other(self, f, args, kwargs)
        return r

    def call_ext(self, f, args, kwargs):
        self.trace.append((f.name, tuple(args), dict(kwargs)))
        parent = getattr(f, 'parent', None)
        mname = getattr(f, 'method_name', None)
        spec = None
        if parent is not None and mname in parent.returns:
            spec = parent.returns[mname]
        elif '()' in f.returns:
            spec = f.returns['()']
        if spec is None:
            return None
        if callable(spec):
            return spec(self, args, kwargs)
        return spec

    def instantiate(self, cls, args, kwargs):
        ec = self.models.excclass_of_classval(self, cls)
        if ec is not None:
            init, owner = cls.lookup('__init__')
            ev = ExcVal(ec, args)
            if init is not None:
                # run user __init__ on an Obj-like view is out of scope; keep args only
                pass
            return ev
        special = self.models.instantiate_special(self, cls, args, kwargs)
        if special is not None:
            return special
        o = Obj(cls)
        init, owner = cls.lookup('__init__')
        if isinstance(init, FuncVal):
            self.call_function(init, [o] + list(args), kwargs)
        elif args or kwargs:
            # no interpreted __init__: maybe an external base
            self.models.external_init(self, o, args, kwargs)
        return o

    def call_function(self, f, args, kwargs):
        summ = self.summaries.get(f.qualname_full()) if hasattr(f, 'qualname_full') else None
        key = f.module.name + ':' + f.qualname
        summ = self.summaries.get(key)
        if summ is not None and not summ.get('_active'):
            return summ['apply'](self, f, args, kwargs)
        if not self.spec_mode:
            self.interpreted.add(key)
        self.call_depth += 1
        if self.call_depth > self.cfg.get('max_depth', 60):
            self.call_depth -= 1
            raise Budget('call depth')
        try:
            fr = Frame(f.module, parent=f.closure, func=f)
            self.bind_args(f, fr, args, kwargs)
            try:
                self.exec_block(f.node.body, fr)
            except _Return as r:
                return r.value
            return None
        finally:
            self.call_depth -= 1

    def bind_args(self, f, fr, args, kwargs):
        a = f.node.args
        params = [p.arg for p in a.posonlyargs + a.args]
        kwargs = dict(kwargs)
        n = len(params)
        if len(args) > n and a.vararg is None:
            self.raise_py('TypeError', '%s() takes %d positional arguments but %d were given' % (f.node.name, n, len(args)))
        for i, p in enumerate(params):
            if i < len(args):
                if p in kwargs:
                    self.raise_py('TypeError', "%s() got multiple values for argument '%s'" % (f.node.name, p))
                fr.vars[p] = args[i]
            elif p in kwargs:
                fr.vars[p] = kwargs.pop(p)
            else:
                di = i - (n - len(f.defaults))
                if di < 0:
                    self.raise_py('TypeError', "%s() missing required positional argument: '%s'" % (f.node.name, p))
                fr.vars[p] = f.defaults[di]
        if a.vararg is not None:
            fr.vars[a.vararg.arg] = tuple(args[n:])
        for p in a.kwonlyargs:
            if p.arg in kwargs:
                fr.vars[p.arg] = kwargs.pop(p.arg)
            elif p.arg in f.kwdefaults:
                fr.vars[p.arg] = f.kwdefaults[p.arg]
            else:
                self.raise_py('TypeError', "%s() missing keyword-only argument '%s'" % (f.node.name, p.arg))
        if a.kwarg is not None:
            fr.vars[a.kwarg.arg] = PDict(list(kwargs.items()))
        elif kwargs:
            self.raise_py('TypeError', "%s() got an unexpected keyword argument '%s'" % (f.node.name, list(kwargs)[0]))

    # strings
    def str_percent(self, fmt, arg):
        return self.models.str_percent(self, fmt, arg)


def is_sym_any(v):
    return isinstance(v, SYM_SCALARS)


def _sub_returns(returns, name):
    pre = name + '.'
    return {k[len(pre):]: v for k, v in returns.items() if k.startswith(pre)}


_expr_cache = {}


def _parse_expr(s):
    if isinstance(s, ast.AST):
        return s
    n = _expr_cache.get(s)
    if n is None:
        n = ast.parse(s.strip(), mode='eval').body
        _expr_cache[s] = n
    return n


def _assigned_names(st):
    out = []
    if isinstance(st, (ast.Assign, ast.AnnAssign, ast.AugAssign)):
        tgts = st.targets if isinstance(st, ast.Assign) else [st.target]
        for t in tgts:
            for n in ast.walk(t):
                if isinstance(n, ast.Name):
                    out.append(n.id)
    elif isinstance(st, (ast.FunctionDef, ast.ClassDef)):
        out.append(st.name)
    elif isinstance(st, (ast.Import, ast.ImportFrom)):
        for a in st.names:
            out.append((a.asname or a.name).split('.')[0])
    elif isinstance(st, (ast.If, ast.Try, ast.With, ast.For, ast.While)):
        for s in ast.walk(st):
            if s is not st and isinstance(s, ast.stmt):
                out.extend(_assigned_names(s))
    return out


def _assigned_in(body):
    names = set()
    attrs = set()
    for st in body:
        for n in ast.walk(st):
            if isinstance(n, (ast.Assign, ast.AugAssign, ast.AnnAssign)):
                tgts = n.targets if isinstance(n, ast.Assign) else [n.target]
                for t in tgts:
                    for x in ast.walk(t):
                        if isinstance(x, ast.Name) and isinstance(x.ctx, ast.Store):
                            names.add(x.id)
                        if isinstance(x, ast.Attribute) and isinstance(x.ctx, ast.Store):
                            attrs.add(ast.unparse(x))
            if isinstance(n, ast.For):
                for x in ast.walk(n.target):
                    if isinstance(x, ast.Name):
                        names.add(x.id)
    return {'names': sorted(names), 'attrs': sorted(attrs)}


_BINOPS = {ast.Add: '+', ast.Sub: '-', ast.Mult: '*', ast.Div: '/', ast.FloorDiv: '//', ast.Mod: '%', ast.Pow: '**',
           ast.LShift: '<<', ast.RShift: '>>', ast.BitOr: '|', ast.BitAnd: '&', ast.BitXor: '^'}
_UNOPS = {ast.Not: 'not', ast.USub: '-', ast.UAdd: '+', ast.Invert: '~'}
_CMPOPS = {ast.Eq: '==', ast.NotEq: '!=', ast.Lt: '<', ast.LtE: '<=', ast.Gt: '>', ast.GtE: '>=', ast.Is: 'is',
           ast.IsNot: 'is not', ast.In: 'in', ast.NotIn: 'not in'}
