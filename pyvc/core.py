"""Path exploration, solver access and control-flow exceptions shared by the interpreter."""
import time
import z3

from .values import *


class OutOfSubset(Exception):
    """The interpreted code (or a spec) uses something the engine has no rule for."""


class EngineError(Exception):
    """Contract refers to something that does not exist / internal inconsistency."""


class PyRaise(Exception):
    """An exception of the interpreted program."""

    def __init__(self, exc):
        Exception.__init__(self, repr(exc))
        self.exc = exc


class PathAbort(Exception):
    """Path ends here (assumption made false / loop body end after invariant check)."""


class Budget(Exception):
    pass


def _substitute_cached(path, t):
    """z3.substitute(t, *path._subs): the same Z3_substitute call, with the ctypes arrays built once per
    substitution list instead of once per call and without z3py's per-call argument assertions (every pair is
    (Bool fact of the path condition, BoolVal), so they hold by construction).  Speed only."""
    arr = getattr(path, '_subs_arrays', None)
    if arr is None or arr[0] is not path._subs:
        num = len(path._subs)
        _from = (z3.Ast * num)()
        _to = (z3.Ast * num)()
        for i, (a, b) in enumerate(path._subs):
            _from[i] = a.as_ast()
            _to[i] = b.as_ast()
        arr = path._subs_arrays = (path._subs, num, _from, _to)
    return z3.z3._to_expr_ref(z3.Z3_substitute(t.ctx.ref(), t.as_ast(), arr[1], arr[2], arr[3]), t.ctx)


class Path:
    """One execution of the contract under a prefix of branch decisions."""

    def __init__(self, prefix, cfg):
        self.prefix = list(prefix)
        self.decisions = []
        self.alternatives = []
        self.cfg = cfg
        self.pc = []
        self.fresh = {}
        self.solver_time = 0.0
        self.nqueries = 0
        self.unknown_branches = 0
        self.notes = []

    # -- symbols
    def fresh_name(self, base):
        n = self.fresh.get(base, 0)
        self.fresh[base] = n + 1
        return '%s!%d' % (base, n)

    # -- assumptions
    def assume(self, cond):
        if cond is True:
            return
        if cond is False:
            raise PathAbort()
        cond = z3.simplify(cond)
        if z3.is_true(cond):
            return
        if z3.is_false(cond):
            raise PathAbort()
        self.pc.append(cond)

    def reduce(self, t):
        """Simplify t under the literal facts of the path condition (sound: pc holds on this path)."""
        if not self.pc:
            return z3.simplify(t)
        n = len(self.pc)
        if getattr(self, '_subs_n', -1) != n:
            # pc is append-only: only the entries added since the last call are flattened; the resulting list is the
            # same, in the same order, as flattening the whole pc (newest entry first)
            old_n = getattr(self, '_subs_n', -1)
            old_subs = self._subs if 0 <= old_n < n else []
            subs = []
            stack = list(self.pc[old_n:]) if 0 <= old_n < n else list(self.pc)
            while stack:
                a = stack.pop()
                if z3.is_and(a):
                    stack.extend(a.children())
                elif z3.is_not(a):
                    subs.append((a.arg(0), z3.BoolVal(False)))
                elif not z3.is_true(a):
                    subs.append((a, z3.BoolVal(True)))
            self._subs = subs + old_subs
            self._subs_n = n
        if not self._subs:
            return z3.simplify(t)
        return z3.simplify(_substitute_cached(self, z3.simplify(t)))

    def check(self, *extra, timeout_ms=None):
        """Satisfiability of pc + extra.

        The assertions are split into variable-disjoint components which are solved separately
        (a conjunction of independent parts is satisfiable iff every part is) and cached across
        paths.  Each component is tried on z3's integer/FP formulation and on the sound
        bit-vector lowering (lower.py).  The models of a `sat` answer are left in
        self.last_model (a MultiModel)."""
        t0 = time.time()
        full = timeout_ms if timeout_ms is not None else self.cfg.get('branch_timeout_ms', 5000)
        self.nqueries += 1
        self.last_model = None
        self.last_backend = 'z3'
        assertions = []
        for a in list(self.pc) + list(extra):
            if z3.is_true(a):
                continue
            if z3.is_and(a):
                assertions.extend(a.children())
            else:
                assertions.append(a)
        comps = partition(assertions)
        overall = z3.sat
        models = []
        backends = set()
        for comp in comps:
            r, model, backend = solve_component(comp, full)
            backends.add(backend)
            if r == z3.unsat:
                overall = z3.unsat
                self.last_backend = backend
                break
            if r == z3.unknown:
                overall = z3.unknown
            models.append(model)
        if overall == z3.sat:
            self.last_model = MultiModel(models)
            bl = sorted(b for b in backends if b != 'z3')
            self.last_backend = bl[-1] if bl else 'z3'
        self.solver_time += time.time() - t0
        return overall

    def feasible(self):
        return self.check() != z3.unsat

    def decide(self, cond):
        """Return a concrete bool for `cond`, forking the exploration if both are possible."""
        if cond is True or cond is False:
            return cond
        if isinstance(cond, SBool):
            cond = cond.t
        if isinstance(cond, bool):
            return cond
        cond = self.reduce(cond)
        if z3.is_true(cond):
            return True
        if z3.is_false(cond):
            return False
        if getattr(self, 'no_fork', 0):
            raise OutOfSubset('a branch on a symbolic condition where forking is switched off (argument of a dropped call)')
        i = len(self.decisions)
        if i < len(self.prefix):
            d = self.prefix[i]
            self.decisions.append(d)
            c = cond if d else z3.Not(cond)
            self.pc.append(c)
            return d
        rt = self.check(cond)
        rf = self.check(z3.Not(cond))
        if rt == z3.unknown or rf == z3.unknown:
            self.unknown_branches += 1
        can_t = rt != z3.unsat
        can_f = rf != z3.unsat
        if can_t and can_f:
            self.alternatives.append(self.decisions + [False])
            d = True
        elif can_t:
            d = True
        elif can_f:
            d = False
        else:
            raise PathAbort()
        self.decisions.append(d)
        c = cond if d else z3.Not(cond)
        self.pc.append(c)
        if len(self.decisions) > self.cfg.get('max_decisions', 400):
            raise Budget('too many decisions on one path')
        return d

    def must(self, cond):
        """True iff cond is valid under the path condition (unknown -> False)."""
        if cond is True:
            return True
        if cond is False:
            return False
        cond = self.reduce(cond)
        if z3.is_true(cond):
            return True
        if z3.is_false(cond):
            return False
        return self.check(z3.Not(cond)) == z3.unsat


# ----------------------------------------------------------------------------- component solving

_sym_cache = {}


def symbols_of(a):
    """free constants and function symbols of an assertion (cached by AST id)"""
    key = a.get_id()
    hit = _sym_cache.get(key)
    if hit is not None:
        return hit[1]
    out = set()
    seen = set()
    stack = [a]
    flags = set()
    while stack:
        t = stack.pop()
        i = t.get_id()
        if i in seen:
            continue
        seen.add(i)
        if z3.is_quantifier(t):
            stack.append(t.body())
            flags.add('quant')
            continue
        if z3.is_var(t):
            continue
        if z3.is_app(t):
            k = t.decl().kind()
            if k == z3.Z3_OP_UNINTERPRETED:
                out.add(t.decl().name())
            srt = t.sort().kind()
            if srt == z3.Z3_FLOATING_POINT_SORT:
                flags.add('fp')
            elif srt == z3.Z3_SEQ_SORT:
                flags.add('seq')
            if k in (z3.Z3_OP_IDIV, z3.Z3_OP_MOD, z3.Z3_OP_INT2BV):
                flags.add('divmod')
            stack.extend(t.children())
    res = (frozenset(out), frozenset(flags))
    _sym_cache[key] = (a, res)
    return res


def partition(assertions):
    parent = {}

    def find(x):
        while parent.get(x, x) != x:
            parent[x] = parent.get(parent[x], parent[x])
            x = parent[x]
        return x

    def union(a, b):
        ra, rb = find(a), find(b)
        if ra != rb:
            parent[ra] = rb
    infos = []
    for a in assertions:
        syms, flags = symbols_of(a)
        infos.append((a, syms))
        syms = list(syms)
        for s in syms[1:]:
            union(syms[0], s)
    groups = {}
    ground = []
    for a, syms in infos:
        if not syms:
            ground.append(a)
            continue
        groups.setdefault(find(next(iter(syms))), []).append(a)
    comps = list(groups.values())
    if ground:
        comps.append(ground)
    return comps


_comp_cache = {}


def solve_component(comp, timeout_ms):
    key = tuple(sorted(a.get_id() for a in comp))
    hit = _comp_cache.get(key)
    if hit is not None and (hit[1] != z3.unknown or hit[4] >= timeout_ms):
        return hit[1], hit[2], hit[3]
    flags = set()
    for a in comp:
        flags |= symbols_of(a)[1]
    r, model, backend = z3.unknown, None, 'z3'
    lowered_first = bool(flags & {'fp', 'divmod'}) and 'seq' not in flags and 'quant' not in flags

    def plain(tmo):
        s = z3.Solver()
        s.set('timeout', tmo)
        s.add(*comp)
        rr = s.check()
        return rr, (PlainModel(s.model()) if rr == z3.sat else None), 'z3'

    def lowered(tmo):
        from .lower import Lowerer, GiveUp
        try:
            lw = Lowerer(list(comp))
            low = lw.lower()
        except (GiveUp, z3.Z3Exception):
            return z3.unknown, None, 'z3'
        s = z3.Solver()
        s.set('timeout', tmo)
        s.add(*low)
        rr = s.check()
        return rr, (LoweredModel(s.model()) if rr == z3.sat else None), 'z3-bv%d' % lw.W

    if lowered_first:
        r, model, backend = lowered(timeout_ms)
        if r == z3.unknown:
            r, model, backend = plain(timeout_ms)
    else:
        r, model, backend = plain(min(timeout_ms, 1000))
        if r == z3.unknown and 'seq' not in flags and 'quant' not in flags:
            r, model, backend = lowered(timeout_ms)
        if r == z3.unknown and timeout_ms > 1000:
            r, model, backend = plain(timeout_ms)
    _comp_cache[key] = (list(comp), r, model, backend, timeout_ms)
    if len(_comp_cache) > 20000:
        _comp_cache.clear()
    return r, model, backend


class PlainModel:
    def __init__(self, m):
        self.m = m
        self.names = set(d.name() for d in m.decls())

    def has(self, name):
        return name in self.names

    def eval(self, t):
        return self.m.eval(t, model_completion=True)


class LoweredModel:
    def __init__(self, m):
        self.m = m
        self.names = set()
        self.bv = {}
        for d in m.decls():
            n = d.name()
            if n.startswith('bv!'):
                self.bv[n[3:]] = m[d]
                self.names.add(n[3:])
            else:
                self.names.add(n)

    def has(self, name):
        return name in self.names

    def eval(self, t):
        if z3.is_const(t) and z3.is_int(t) and not z3.is_int_value(t):
            v = self.bv.get(t.decl().name())
            return z3.IntVal(v.as_signed_long() if v is not None else 0)
        return self.m.eval(t, model_completion=True)


class MultiModel:
    """models of the variable-disjoint components of one query"""

    def __init__(self, models):
        self.models = [m for m in models if m is not None]

    def eval(self, t, model_completion=True):
        syms, _ = symbols_of(t)
        for m in self.models:
            if any(m.has(s) for s in syms):
                return m.eval(t)
        if self.models:
            return self.models[0].eval(t)
        return t


def explore(run, cfg):
    """Depth-first exploration by re-execution.  run(path) is called once per path."""
    work = [[]]
    n = 0
    stats = {'paths': 0, 'aborted': 0, 'solver_time': 0.0, 'queries': 0, 'unknown_branches': 0}
    max_paths = cfg.get('max_paths', 3000)
    # wall-clock budget of one contract: a change that removes an early exit can multiply the paths of a contract; the contract
    # then ends as undecided with the records produced so far (failed ones are still replayed and reported) instead of keeping the
    # whole check from reporting anything
    max_wall = cfg.get('max_wall_s')
    import time as _time
    t_start = _time.time()
    while work:
        prefix = work.pop()
        p = Path(prefix, cfg)
        try:
            run(p)
            stats['paths'] += 1
        except PathAbort:
            stats['aborted'] += 1
        work.extend(p.alternatives)
        stats['solver_time'] += p.solver_time
        stats['queries'] += p.nqueries
        stats['unknown_branches'] += p.unknown_branches
        n += 1
        if n > max_paths:
            raise Budget('more than %d paths' % max_paths)
        if max_wall and work and _time.time() - t_start > max_wall:
            raise Budget('exploration stopped after %d s (%d paths done)' % (max_wall, n))
    return stats
