"""Path exploration, solver access and control-flow exceptions shared by the interpreter."""
import time
import z3

from .values import *


class OutOfSubset(Exception):
    """The interpreted code (or a spec) uses something the engine has no rule for."""


class EngineError(Exception):
    """Contract refers to something that does not exist / internal inconsistency."""


class PyRaise(Exception):
    """An exception of the interpreted program."""

    def __init__(self, exc):
        Exception.__init__(self, repr(exc))
        self.exc = exc


class PathAbort(Exception):
    """Path ends here (assumption made false / loop body end after invariant check)."""


class Budget(Exception):
    pass


class Path:
    """One execution of the contract under a prefix of branch decisions."""

    def __init__(self, prefix, cfg):
        self.prefix = list(prefix)
        self.decisions = []
        self.alternatives = []
        self.cfg = cfg
        self.solver = z3.Solver()
        self.solver.set('timeout', cfg.get('branch_timeout_ms', 5000))
        self.pc = []
        self.fresh = {}
        self.solver_time = 0.0
        self.nqueries = 0
        self.unknown_branches = 0
        self.notes = []

    # -- symbols
    def fresh_name(self, base):
        n = self.fresh.get(base, 0)
        self.fresh[base] = n + 1
        return '%s!%d' % (base, n)

    # -- assumptions
    def assume(self, cond):
        if cond is True:
            return
        if cond is False:
            raise PathAbort()
        cond = z3.simplify(cond)
        if z3.is_true(cond):
            return
        if z3.is_false(cond):
            raise PathAbort()
        self.pc.append(cond)
        self.solver.add(cond)

    def check(self, *extra, timeout_ms=None):
        """Satisfiability of pc + extra.  Tries z3 on the integer formulation briefly, then the
        sound bit-vector lowering (lower.py), then z3 again with the full budget.  The model of a
        `sat` answer is left in self.last_model (self.last_lowered tells which formulation)."""
        t0 = time.time()
        full = timeout_ms if timeout_ms is not None else self.cfg.get('branch_timeout_ms', 5000)
        self.nqueries += 1
        self.last_model = None
        self.last_lowered = False
        self.last_backend = 'z3'
        if getattr(self, 'prefer_lowered', False):
            r = z3.unknown
        else:
            self.solver.set('timeout', min(full, 1000))
            r = self.solver.check(*extra)
        if r == z3.unknown:
            from .lower import Lowerer, GiveUp
            try:
                lw = Lowerer(list(self.pc) + list(extra))
                low = lw.lower()
                s2 = z3.Solver()
                s2.set('timeout', full)
                s2.add(*low)
                r2 = s2.check()
                if r2 != z3.unknown:
                    r = r2
                    self.last_backend = 'z3-bv%d' % lw.W
                    self.prefer_lowered = True
                    if r2 == z3.sat:
                        self.last_model = s2.model()
                        self.last_lowered = True
            except (GiveUp, z3.Z3Exception):
                pass
        if r == z3.unknown and full > 1000:
            self.solver.set('timeout', full)
            r = self.solver.check(*extra)
        if r == z3.sat and self.last_model is None:
            self.last_model = self.solver.model()
        self.solver_time += time.time() - t0
        return r

    def feasible(self):
        return self.check() != z3.unsat

    def decide(self, cond):
        """Return a concrete bool for `cond`, forking the exploration if both are possible."""
        if cond is True or cond is False:
            return cond
        if isinstance(cond, SBool):
            cond = cond.t
        if isinstance(cond, bool):
            return cond
        cond = z3.simplify(cond)
        if z3.is_true(cond):
            return True
        if z3.is_false(cond):
            return False
        i = len(self.decisions)
        if i < len(self.prefix):
            d = self.prefix[i]
            self.decisions.append(d)
            c = cond if d else z3.Not(cond)
            self.pc.append(c)
            self.solver.add(c)
            return d
        rt = self.check(cond)
        rf = self.check(z3.Not(cond))
        if rt == z3.unknown or rf == z3.unknown:
            self.unknown_branches += 1
        can_t = rt != z3.unsat
        can_f = rf != z3.unsat
        if can_t and can_f:
            self.alternatives.append(self.decisions + [False])
            d = True
        elif can_t:
            d = True
        elif can_f:
            d = False
        else:
            raise PathAbort()
        self.decisions.append(d)
        c = cond if d else z3.Not(cond)
        self.pc.append(c)
        self.solver.add(c)
        if len(self.decisions) > self.cfg.get('max_decisions', 400):
            raise Budget('too many decisions on one path')
        return d

    def must(self, cond):
        """True iff cond is valid under the path condition (unknown -> False)."""
        if cond is True:
            return True
        if cond is False:
            return False
        cond = z3.simplify(cond)
        if z3.is_true(cond):
            return True
        if z3.is_false(cond):
            return False
        return self.check(z3.Not(cond)) == z3.unsat


def explore(run, cfg):
    """Depth-first exploration by re-execution.  run(path) is called once per path."""
    work = [[]]
    n = 0
    stats = {'paths': 0, 'aborted': 0, 'solver_time': 0.0, 'queries': 0, 'unknown_branches': 0}
    max_paths = cfg.get('max_paths', 3000)
    while work:
        prefix = work.pop()
        p = Path(prefix, cfg)
        try:
            run(p)
            stats['paths'] += 1
        except PathAbort:
            stats['aborted'] += 1
        work.extend(p.alternatives)
        stats['solver_time'] += p.solver_time
        stats['queries'] += p.nqueries
        stats['unknown_branches'] += p.unknown_branches
        n += 1
        if n > max_paths:
            raise Budget('more than %d paths' % max_paths)
    return stats
