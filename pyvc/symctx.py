"""Symbolic back end of the contract context (see api.py)."""
import os
import struct as _struct
import subprocess
import tempfile
import time
import z3

from .values import *
from .core import *
from .interp import Interp, Frame, _Return
from . import ops, models as M, structmodel
from .ops import zterm, mk_int, mk_bool, conj, disj, py_eq, compare, binop


class ObRecord:
    __slots__ = ('name', 'cls', 'status', 'backend', 'time', 'values', 'detail', 'path_id', 'expr')

    def __init__(self, name, cls, status, backend, t, values=None, detail='', path_id=0, expr=''):
        self.name, self.cls, self.status, self.backend, self.time = name, cls, status, backend, t
        self.values, self.detail, self.path_id, self.expr = values, detail, path_id, expr

    def as_dict(self):
        return {k: getattr(self, k) for k in self.__slots__}


def run_cvc5(smt2, timeout_s):
    with tempfile.NamedTemporaryFile('w', suffix='.smt2', delete=False, dir='/dev/shm' if os.path.isdir('/dev/shm') else None) as f:
        f.write('(set-logic ALL)\n' + smt2 + '\n(check-sat)\n')
        fn = f.name
    try:
        p = subprocess.run(['/usr/bin/cvc5', '--strings-exp', '--tlimit=%d' % int(timeout_s * 1000), fn],
                           capture_output=True, text=True, timeout=timeout_s + 5)
        out = p.stdout.strip().splitlines()
        return out[0] if out else 'unknown'
    except Exception:
        return 'unknown'
    finally:
        os.unlink(fn)


def partition_for(pc, goal):
    """components of pc + goal that are connected to the goal or not known satisfiable"""
    from .core import partition, symbols_of
    comps = partition(list(pc) + [goal])
    gid = goal.get_id()
    out = [c for c in comps if any(a.get_id() == gid for a in c)]
    return out or comps


_ABSENT = object()


class SymCtx:
    backend = 'sym'

    def __init__(self, contract, path, repo_root, cfg, modules, sink, path_id):
        self.contract = contract
        self.path = path
        self.cfg = cfg
        self.I = Interp(repo_root, path, cfg, modules)
        self.I.float_mode = contract.opts.get('float_mode', 'FP')
        self.I.obligation_sink = self._sink
        self.I.cfg = dict(cfg)
        self.I.cfg.update({k: v for k, v in contract.opts.items() if k in ('unroll', 'unroll_for', 'max_depth')})
        self.ns = {}
        self.inputs = []        # (name, kind, payload)
        self.sink = sink
        self.path_id = path_id
        self.called = False
        self.specmod = ModuleVal('<spec>', None)
        self.specmod.attrs = self.ns
        self.frame = Frame(self.specmod)
        self._install_helpers()
        self.I.spec_env = self.ns       # spec helpers are visible in invariants evaluated inside function frames
        self.n_ensures = 0
        for parent, nm, old in reversed(modules.pop('<patched>', [])):      # c.patch of the previous path
            if old is _ABSENT:
                parent.attrs.pop(nm, None)
            else:
                parent.attrs[nm] = old

    # ------------------------------------------------------------------ inputs
    def _reg(self, name, kind, payload, value):
        self.inputs.append((name, kind, payload))
        self.ns[name] = value
        return value

    def _note_range(self, t, lo, hi):
        # declared (assumed) range of an input, kept for ops.syn_bounds so that bit widths need no solver call
        if lo is not None and hi is not None:
            tb = getattr(self.path, 'term_bounds', None)
            if tb is None:
                tb = self.path.term_bounds = {}
            tb[t.get_id()] = (t, lo, hi)

    def int(self, name, lo=None, hi=None):
        t = z3.Int(name)
        if lo is not None:
            self.path.assume(t >= lo)
        if hi is not None:
            self.path.assume(t <= hi)
        self._note_range(t, lo, hi)
        return self._reg(name, 'int', t, SInt(t))

    def bool(self, name):
        t = z3.Bool(name)
        return self._reg(name, 'bool', t, SBool(t))

    def float(self, name, finite=False):
        if self.I.float_mode == 'R':
            t = z3.Real(name)
            return self._reg(name, 'real', t, SReal(t))
        t = z3.FP(name, F64)
        if finite:
            self.path.assume(z3.Not(z3.Or(z3.fpIsNaN(t), z3.fpIsInf(t))))
        return self._reg(name, 'float', t, SFloat(t))

    def _ints(self, name, n, lo, hi):
        ts = [z3.Int('%s[%d]' % (name, i)) for i in range(n)]
        for t in ts:
            if lo is not None:
                self.path.assume(t >= lo)
            if hi is not None:
                self.path.assume(t <= hi)
            self._note_range(t, lo, hi)
        return ts

    def bytes(self, name, n):
        ts = self._ints(name, n, 0, 255)
        return self._reg(name, 'bytes', ts, PBytes([SInt(t) for t in ts]))

    def bytearray(self, name, n):
        ts = self._ints(name, n, 0, 255)
        return self._reg(name, 'bytearray', ts, PBytearray([SInt(t) for t in ts]))

    def ints(self, name, n, lo=None, hi=None, kind='list'):
        ts = self._ints(name, n, lo, hi)
        v = ops.mk_seq(kind, [SInt(t) for t in ts])
        return self._reg(name, 'ints:' + kind, ts, v)

    def floats(self, name, n, kind='list', finite=False):
        vs = []
        ts = []
        for i in range(n):
            nm = '%s[%d]' % (name, i)
            if self.I.float_mode == 'R':
                t = z3.Real(nm)
                vs.append(SReal(t))
            else:
                t = z3.FP(nm, F64)
                if finite:
                    self.path.assume(z3.Not(z3.Or(z3.fpIsNaN(t), z3.fpIsInf(t))))
                vs.append(SFloat(t))
            ts.append(t)
        return self._reg(name, 'floats:' + kind, ts, ops.mk_seq(kind, vs))

    def get(self, name):
        return self.ns.get(name)

    def uf_summary(self, ref, helper, ret_lo=None, ret_hi=None, note=''):
        """Replace calls of repository function `ref` by an uninterpreted function of its
        (flattened numeric) arguments with result range [ret_lo, ret_hi]; the same function is
        available to specifications under the name `helper`.  The function's own contract is
        proved (or stated as assumed) elsewhere."""
        I = self.I

        def flat(v, out):
            if ops.is_number(v):
                out.append(v)
            elif ops.is_seq(v):
                for x in ops.seq_items(v):
                    flat(x, out)
            else:
                raise OutOfSubset('uf_summary argument %r' % (v,))

        def app(args):
            fl = []
            for a in args:
                flat(a, fl)
            zs = []
            for x in fl:
                if ops.is_floatlike(x):
                    zs.append(ops.to_real(I, x) if I.float_mode == 'R' else ops.to_fp(I, x))
                else:
                    zs.append(zterm(x))
            f = z3.Function('uf_' + helper, *([z.sort() for z in zs] + [z3.IntSort()]))
            r = f(*zs)
            if ret_lo is not None:
                self.path.assume(r >= ret_lo)
            if ret_hi is not None:
                self.path.assume(r <= ret_hi)
            return mk_int(r)
        self.I.summaries[ref] = {'apply': lambda I_, f, args, kwargs: app(args)}
        self.ns[helper] = Builtin(helper, lambda I_, a, k: app(a))
        self.I.note_assumption('call of %s replaced by its contract: uninterpreted function with result in [%s, %s] %s' % (ref, ret_lo, ret_hi, note))

    def str(self, name, n, lo=32, hi=126):
        ts = self._ints(name, n, lo, hi)
        return self._reg(name, 'str', ts, PStr([SInt(t) for t in ts]) if n else '')

    def view(self, name, kind='bytes', maxlen=None, lo=0, hi=255):
        """byte/int sequence of symbolic length as a window into an SMT array (see values.SView)"""
        arr = z3.Array(name, z3.IntSort(), z3.IntSort())
        ln = z3.Int(name + '!len')
        self.path.assume(ln >= 0)
        if maxlen is not None:
            self.path.assume(ln <= maxlen)
        v = SView(arr, z3.IntVal(0), ln, kind)
        v.byte_range = (lo == 0 and hi == 255)
        return self._reg(name, 'view:' + kind, (arr, ln), v)

    def seq(self, name, kind='bytes', maxlen=None):
        """byte/int sequence of symbolic length"""
        t = z3.Const(name, ops.IntSeq)
        if maxlen is not None:
            self.path.assume(z3.Length(t) <= maxlen)
        if kind in ('bytes', 'bytearray'):
            i = z3.Int(name + '!i')
            self.path.assume(z3.ForAll([i], z3.Implies(z3.And(i >= 0, i < z3.Length(t)), z3.And(t[i] >= 0, t[i] <= 255))))
        return self._reg(name, 'seq:' + kind, t, SSeq(t, kind))

    def choice(self, name, options):
        """one of the concrete options (exploration forks)"""
        t = z3.Int(name)
        self.path.assume(z3.And(t >= 0, t < len(options)))
        self.inputs.append((name, 'int', t))
        for i in range(len(options) - 1):
            if self.path.decide(t == i):
                self.ns[name] = options[i]
                return options[i]
        self.ns[name] = options[-1]
        return options[-1]

    def let(self, name, value):
        self.ns[name] = self._lift(value)
        return self.ns[name]

    def _lift(self, v):
        if isinstance(v, bytes):
            return PBytes(list(v))
        if isinstance(v, bytearray):
            return PBytearray(list(v))
        if isinstance(v, list):
            return PList([self._lift(x) for x in v])
        if isinstance(v, tuple) and not isinstance(v, M.NTVal):
            new = tuple(self._lift(x) for x in v)
            return v if all(a is b for a, b in zip(new, v)) else new     # keep identity when nothing was converted
        if isinstance(v, dict):
            return PDict([(self._lift(k), self._lift(x)) for k, x in v.items()])
        return v

    # ------------------------------------------------------------------ objects
    def cls(self, ref):
        return self.I.resolve(ref)

    def obj(self, ref, _name=None, **fields):
        c = self.I.resolve(ref)
        if not isinstance(c, ClassVal):
            raise EngineError('%s is not a class' % ref)
        o = Obj(c)
        for k, v in fields.items():
            o.attrs[k] = self._lift(v)
        if _name:
            self.ns[_name] = o
        return o

    def new(self, ref, *args, **kwargs):
        """Run the real constructor."""
        c = self.I.resolve(ref)
        return self.I.call(c, [self._lift(a) for a in args], {k: self._lift(v) for k, v in kwargs.items()})

    def ext(self, name, attrs=None, returns=None, cls=None, truthy=True, auto=True):
        e = Ext(name, {k: self._lift(v) for k, v in (attrs or {}).items()},
                {k: self._lift(v) for k, v in (returns or {}).items()}, auto=auto, truthy=truthy, cls=cls)
        self.ns.setdefault(name, e)
        return e

    def lock(self, name, held=False, on_block=None):
        lv = LockVal(name, held.t if False else held)
        if isinstance(held, SBool):
            lv.held = held
        if on_block is not None:
            lv.on_block = on_block      # see models2.lock_method.acquire: what the other threads do while this one waits
        self.ns.setdefault(name, lv)
        return lv

    def queue(self, name, items=(), maxsize=0):
        q = QueueVal(name, [self._lift(x) for x in items])
        q.maxsize = maxsize
        self.ns.setdefault(name, q)
        return q

    def event(self, name, flag=False):
        e = EventVal(name, flag)
        self.ns.setdefault(name, e)
        return e

    def model_threads(self, modref):
        """opt-in: threading.Thread objects run their target atomically at a scheduler-chosen point
        between start() and the return of join(); every schedule is explored (models2._model_thread).
        modref names the repository module whose `Thread` the native back end replaces."""
        self.I.cfg['thread_model'] = {'pending': []}
        self.I.note_assumption('threading.Thread(target=f, args=a): f(*a) runs exactly once, atomically, at some point '
                               'between start() and the return of join(); all such schedules are explored; '
                               'interleavings inside a thread body are not')

    def func(self, ref):
        return self.I.resolve(ref)

    def namedtuple(self, ref, *items):
        ntc = self.I.resolve(ref)
        return M.NTVal(ntc, [self._lift(x) for x in items])

    def list(self, items):
        return PList([self._lift(x) for x in items])

    def dict(self, pairs):
        return PDict([(self._lift(k), self._lift(v)) for k, v in pairs])

    # ------------------------------------------------------------------ pre / call / post
    def require(self, expr):
        v = self.I.eval_spec(expr, self.frame)
        self.path.assume(self.I.spec_bool(v))

    def assume_note(self, text):
        self.I.note_assumption(text)

    def snapshot(self, name, expr):
        self.ns[name] = self.I.eval_spec(expr, self.frame)
        return self.ns[name]

    def summary(self, ref, apply):
        self.I.summaries[ref] = {'apply': apply}

    def loop_invariant(self, funcref, loop, invariant, havoc, names, variant=None, tag=None, index='k', iteration_post=()):
        f = self.I.resolve(funcref)
        self.I.loop_specs[(f.qualname, loop)] = {'invariant': invariant, 'havoc': havoc, 'names': names, 'index': index,
                                                 'iteration_post': list(iteration_post),
                                                 'variant': variant, 'tag': tag or '%s#%s' % (f.qualname, loop)}

    def call(self, target, *args, **kwargs):
        if isinstance(target, str):
            f = self.I.resolve(target)
        elif isinstance(target, tuple):
            f = self.I.getattr(target[0], target[1])
        else:
            f = target
        args = [self._lift(a) for a in args]
        kwargs = {k: self._lift(v) for k, v in kwargs.items()}
        self.ns['raised'] = None
        self.ns['exc'] = None
        self.ns['result'] = None
        try:
            self.ns['result'] = self.I.call(f, args, kwargs)
        except PyRaise as pr:
            self.ns['raised'] = pr.exc.cls.name
            self.ns['exc'] = pr.exc
        self.ns['trace'] = tuple((n, tuple(a), PDict(list(k.items()))) for n, a, k in self.I.trace)
        self.called = True
        return self.ns['result']

    def set(self, obj, attr, value):
        self.I.setattr(obj, attr, self._lift(value))

    def getfield(self, obj, attr):
        return self.I.getattr(obj, attr)

    def use_stubs(self, modref, names):
        """native back end only: replace Timer / sleep / time / Thread ... in module `modref` by
        recording stubs; the symbolic interpreter models those externals already"""
        self.I.load_module(modref)

    def patch(self, ref, value, create=False):
        """(added for C20) replace the module / class attribute `ref` ('pkg.mod:Name' or 'pkg.mod:Class.attr') by
        `value` (an Ext stub, a list, a constant) for this path.  The interpreted modules are shared by
        the paths of a contract, so the original is put back when the next path starts."""
        modname, _, qual = ref.partition(':')
        parts = qual.split('.')
        parent = self.I.resolve(modname + ':' + '.'.join(parts[:-1]))
        if not isinstance(parent, (ModuleVal, ClassVal)) or (parts[-1] not in parent.attrs and not create):
            raise EngineError('%s: nothing to patch' % ref)
        # create=True: the attribute may be missing (optional dependency that is not installed, e.g. pyserial)
        self.I.modules.setdefault('<patched>', []).append((parent, parts[-1], parent.attrs.get(parts[-1], _ABSENT)))
        parent.attrs[parts[-1]] = self._lift(value)
        self.I.note_assumption('%s is replaced by a stub of the contract' % ref)
        return parent.attrs[parts[-1]]

    def concretize(self, expr, limit=64):
        """python int value of an integer spec expression; forks over the feasible values when the
        path condition does not determine it (at most `limit` values)"""
        v = self.I.eval_spec(expr, self.frame) if isinstance(expr, str) else expr
        if isinstance(v, bool):
            return int(v)
        if isinstance(v, int):
            return v
        if isinstance(v, SBool):
            return 1 if self.path.decide(v.t) else 0
        t = self.path.reduce(v.t)
        if z3.is_int_value(t):
            return t.as_long()
        for _ in range(limit):
            r = self.path.check()
            if r != z3.sat:
                raise OutOfSubset('concretize: path condition not satisfiable/decidable')
            val = self.path.last_model.eval(t, model_completion=True).as_long()
            if self.path.decide(t == val):
                return val
        raise Budget('concretize: more than %d values' % limit)

    def invoke(self, target, *args, **kwargs):
        """call a real function/method as a side effect (e.g. from inside an external callback)"""
        f = self.I.resolve(target) if isinstance(target, str) else (self.I.getattr(target[0], target[1]) if isinstance(target, tuple) else target)
        return self.I.call(f, [self._lift(a) for a in args], {k: self._lift(v) for k, v in kwargs.items()})

    def invoke_catch(self, target, *args, **kwargs):
        """like invoke, but returns the name of the exception the call ended with (None if it returned)"""
        try:
            self.invoke(target, *args, **kwargs)
            return None
        except PyRaise as pr:
            return pr.exc.cls.name

    def raiser(self, excname, *args):
        """a callable (for Ext `returns`) that raises the named exception"""
        def f(*_a):
            self.I.raise_py(excname, *args)
        return f

    def virtual_time(self, clock=None):
        """time.sleep/time.time/Thread.start/Thread.join are always the sequential models of models2.py here (the
        native back end opts in with this call); clock = the values successive time.time() calls return
        (non-decreasing is assumed; afterwards fresh non-decreasing values)"""
        if clock is not None:
            self.I.time_script = list(ops.seq_items(clock)) if ops.is_seq(clock) else list(clock)

    def _live_trace(self):
        return tuple((n, tuple(a), PDict(list(k.items()))) for n, a, k in self.I.trace)

    def reset_trace(self):
        del self.I.trace[:]

    def ensure(self, name, expr, cls='P', native=True):
        self.n_ensures += 1
        try:
            v = self.I.eval_spec(expr, self.frame)
        except PyRaise as pr:
            # a post-condition that cannot even be evaluated (e.g. it packs a value the code let through although it
            # is out of range, or indexes a packet that was never sent) does not hold on this path
            r = self.path.check()
            vals = self.model_values(self.path.last_model) if r == z3.sat else {}
            self.sink.add(ObRecord(name, cls, 'failed' if r == z3.sat else 'undecided', 'z3', 0.0, values=vals, path_id=self.path_id,
                                   expr=expr, detail='specification raised %r' % (pr.exc,)))
            return
        self._sink(cls, name, v, {'expr': expr})

    def cover(self, name, expr):
        """reachability guard: expr must be satisfiable on at least one path (checked by runner)"""
        v = self.I.eval_spec(expr, self.frame)
        t = self.I.spec_bool(v)
        r = self.path.check(t)
        self.sink.cover(name, r == z3.sat)

    # ------------------------------------------------------------------ obligations
    def _sink(self, cls, name, cond, info):
        tv = self.I.truth(cond) if not isinstance(cond, (bool, SBool)) else cond
        expr = info.get('expr', info.get('inv', ''))
        if tv is True:
            self.sink.add(ObRecord(name, cls, 'discharged', 'syntactic', 0.0, path_id=self.path_id, expr=expr))
            return
        goal = z3.BoolVal(False) if tv is False else self.path.reduce(tv.t)
        if z3.is_true(goal):
            self.sink.add(ObRecord(name, cls, 'discharged', 'syntactic', 0.0, path_id=self.path_id, expr=expr))
            return
        # split conjunctions: each conjunct is its own solver query (one obligation record)
        parts = []

        def split(g, depth=0):
            if z3.is_and(g) and depth < 4:
                for ch in g.children():
                    split(ch, depth + 1)
            elif z3.is_not(g) and z3.is_or(g.arg(0)) and depth < 4:
                for ch in g.arg(0).children():
                    split(z3.simplify(z3.Not(ch)), depth + 1)
            else:
                parts.append(g)
        split(goal)
        t0 = time.time()
        status, backend, detail, vals = 'discharged', 'syntactic', '', None
        tmo = self.contract.opts.get('ob_timeout_ms', self.cfg.get('ob_timeout_ms', 10000))     # per-contract option (runner copies it only into the exploration cfg)
        for g in parts:
            neg = z3.simplify(z3.Not(g))
            r = self.path.check(neg, timeout_ms=tmo)
            be = self.path.last_backend
            fail_model = self.path.last_model
            if r == z3.unknown and self.cfg.get('use_cvc5', True):
                s = z3.Solver()
                for comp in partition_for(self.path.pc, neg):
                    s.add(*comp)
                res = run_cvc5(s.to_smt2().replace('(check-sat)', ''), self.cfg.get('cvc5_timeout_s', 30))
                if res == 'unsat':
                    r = z3.unsat
                    be = 'cvc5'
                # a cvc5 'sat' has no model we can lift: stays undecided unless z3 finds one
            if r == z3.unsat:
                if backend == 'syntactic' or be != 'z3':
                    backend = be
                continue
            if r == z3.sat:
                status, backend = 'failed', be
                vals = self.model_values(fail_model)
                if getattr(self.I, 'env_nondet', None):
                    detail = 'nondet-env: this path depends on a choice the native run cannot be given (%s)' % '; '.join(self.I.env_nondet)
                break
            status, backend, detail = 'undecided', be, 'solver unknown on conjunct %s' % str(g)[:200]
        dt = time.time() - t0
        self.sink.add(ObRecord(name, cls, status, backend, dt, values=vals, path_id=self.path_id, expr=expr, detail=detail))

    def witness(self):
        """A concrete input driving the real code down this path (for the concordance run)."""
        r = self.path.check()
        if r != z3.sat:
            return None
        return self.model_values(self.path.last_model)

    def model_values(self, m):
        out = {}

        def ev_int(t):
            v = m.eval(t, model_completion=True)
            try:
                return v.as_long()
            except Exception:
                return 0

        def ev_float(p):
            v = m.eval(p, model_completion=True)
            if z3.is_real(p):
                try:
                    return {'real': float(v.as_fraction())}
                except Exception:
                    if not hasattr(v, 'approx'):
                        return {'real': 0.0}        # variable in no component model (unconstrained): any value, as ev_int
                    return {'real': float(v.approx(20).as_fraction())}
            if z3.is_true(z3.simplify(z3.fpIsNaN(v))):
                return {'f64bits': 0x7ff8000000000000}
            bv = z3.simplify(z3.fpToIEEEBV(v))
            return {'f64bits': bv.as_long() if z3.is_bv_value(bv) else 0}

        for name, kind, p in self.inputs:
            if kind == 'int':
                out[name] = ev_int(p)
            elif kind == 'bool':
                out[name] = z3.is_true(m.eval(p, model_completion=True))
            elif kind in ('float', 'real'):
                out[name] = ev_float(p)
            elif kind in ('bytes', 'bytearray', 'str') or kind.startswith('ints:'):
                out[name] = [ev_int(t) for t in p]
            elif kind.startswith('floats:'):
                out[name] = [ev_float(t) for t in p]
            elif kind.startswith('view:'):
                arr, ln = p
                n = min(max(ev_int(ln), 0), 4096)
                out[name] = [min(max(ev_int(z3.Select(arr, i)), 0), 255) for i in range(n)]
            elif kind.startswith('seq:'):
                v = m.eval(p, model_completion=True)
                ln = m.eval(z3.Length(p), model_completion=True).as_long()
                out[name] = [ev_int(p[i]) for i in range(ln)]
        for name, kind, term in getattr(self.path, 'fresh_log', []):
            if kind == 'int':
                out[name] = ev_int(term)
            elif kind == 'bool':
                out[name] = z3.is_true(m.eval(term, model_completion=True))
            elif kind == 'float':
                out[name] = ev_float(term)
        return out

    # ------------------------------------------------------------------ spec helpers
    def _install_helpers(self):
        I = self.I
        ns = self.ns

        def helper(name):
            def deco(fn):
                ns[name] = Builtin(name, fn)
                return fn
            return deco

        @helper('implies')
        def _implies(I_, a, k):
            x, y = I.truth(a[0]), I.truth(a[1])
            return disj(I, [ops.neg(x), y])

        @helper('iff')
        def _iff(I_, a, k):
            x, y = I.truth(a[0]), I.truth(a[1])
            if isinstance(x, bool) and isinstance(y, bool):
                return x == y
            return mk_bool(ops.zbool(x) == ops.zbool(y))

        @helper('same_float')
        def _same_float(I_, a, k):
            x, y = a
            if not (ops.is_floatlike(x) and ops.is_floatlike(y)):
                return False
            if isinstance(x, SReal) or isinstance(y, SReal):
                return mk_bool(ops.to_real(I, x) == ops.to_real(I, y))
            return mk_bool(ops.to_fp(I, x) == ops.to_fp(I, y))

        @helper('fp16_value')
        def _fp16_value(I_, a, k):
            x = a[0]
            if isinstance(x, int):
                return _struct.unpack('<e', _struct.pack('<H', x))[0]
            return ops.mk_float(z3.fpFPToFP(RNE, z3.fpBVToFP(z3.Int2BV(zterm(x), 16), F16), F64))

        @helper('f32')
        def _f32(I_, a, k):
            x = a[0]
            if isinstance(x, (int, float)) and not is_sym(x):
                return _struct.unpack('<f', _struct.pack('<f', x))[0]
            if isinstance(x, SReal):
                return x
            return ops.mk_float(z3.fpFPToFP(RNE, z3.fpFPToFP(RNE, ops.to_fp(I, x), F32), F64))

        @helper('fits_f32')
        def _fits_f32(I_, a, k):
            x = a[0]
            if isinstance(x, (int, float)) and not is_sym(x):
                try:
                    _struct.pack('<f', x)
                    return True
                except OverflowError:
                    return False
            if isinstance(x, SReal):
                return True
            t = ops.to_fp(I, x)
            y = z3.fpFPToFP(RNE, t, F32)
            return mk_bool(z3.Not(z3.And(z3.Not(z3.fpIsInf(t)), z3.Not(z3.fpIsNaN(t)), z3.fpIsInf(y))))

        @helper('mm')
        def _mm(I_, a, k):
            return M._int(I, [binop(I, '*', a[0], 1000)], {})

        @helper('fits_mm16')
        def _fits_mm16(I_, a, k):
            x = binop(I, '*', a[0], 1000)
            if isinstance(x, float):
                return x == x and abs(x) != float('inf') and -32768 <= int(x) <= 32767
            if isinstance(x, SReal):
                raise OutOfSubset('fits_mm16 in R mode')
            t = ops.to_fp(I, x)
            fin = z3.Not(z3.Or(z3.fpIsNaN(t), z3.fpIsInf(t)))
            v = zterm(M.float_trunc_term(I, t))
            return mk_bool(z3.And(fin, v >= -32768, v <= 32767))

        @helper('pack')
        def _pack(I_, a, k):
            return structmodel.pack(I, a[0], a[1:])

        @helper('unpack')
        def _unpack(I_, a, k):
            return structmodel.unpack(I, a[0], a[1])

        @helper('forall')
        def _forall(I_, a, k):
            return conj(I, [I.truth(I.call(a[1], [x], {})) for x in I.iterate_all(a[0])])

        @helper('exists')
        def _exists(I_, a, k):
            return disj(I, [I.truth(I.call(a[1], [x], {})) for x in I.iterate_all(a[0])])

        @helper('is_nan')
        def _is_nan(I_, a, k):
            x = a[0]
            if isinstance(x, float):
                return x != x
            if isinstance(x, SFloat):
                return mk_bool(z3.fpIsNaN(x.t))
            return False

        @helper('is_inf')
        def _is_inf(I_, a, k):
            x = a[0]
            if isinstance(x, float):
                return x in (float('inf'), float('-inf'))
            if isinstance(x, SFloat):
                return mk_bool(z3.fpIsInf(x.t))
            return False

        @helper('typename')
        def _typename(I_, a, k):
            return M.type_name(I, a[0])

        @helper('calls')
        def _calls(I_, a, k):
            """names of trace entries, optionally filtered by prefix"""
            tr = self._live_trace()
            pre = a[0] if a else ''
            return tuple(e[0] for e in tr if e[0].startswith(pre))

        @helper('sent')
        def _sent(I_, a, k):
            """trace entries with the given name"""
            tr = self._live_trace()
            return tuple(e for e in tr if e[0] == a[0])

        @helper('is_same')
        def _is_same(I_, a, k):
            return a[0] is a[1]

        @helper('field')
        def _field(I_, a, k):
            return I.getattr(a[0], a[1])

        @helper('crc32')
        def _crc(I_, a, k):
            from .models2 import _crc32
            return _crc32(I, a, k)
        ns['Deadlock'] = 'Deadlock'
