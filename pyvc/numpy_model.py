"""A small model of numpy float arrays and of scipy's Rotation for the symbolic interpreter (shared by C13 and C16).

Hooks: ops.binop/unop/py_eq/seq_len, Interp.inplace/get_iter/truth, models2.value_getattr/getitem/setitem and
EXTERNALS['numpy.*'] (install below).

Scope (everything else raises OutOfSubset, i.e. the check is UNDECIDED, never green):
  * float_mode 'R' only: float64 elements are mathematical reals (the usual abstraction of mode R, reported);
    float32 (np.float32) is treated the same way, with a noted assumption;
  * NDArray: a mutable n-dimensional (n = 1, 2) array of floats with object identity.  `a *= s` mutates in place and
    is seen through every alias, `a * s` makes a new array, np.array(x) copies.  numpy *views* (a[i] of a matrix,
    slices, transposes) are modelled as read-only snapshots: writing through a view, or writing to an array that has
    handed out a view, is out of subset (so stale snapshots are never observed);
  * integer / bool / object arrays are not modelled;
  * numpy scalars (np.float64, what indexing / norm / dot / mean / sqrt return) are NPReal values: reals that remember
    that numpy arithmetic applies to them: `x / 0` is inf/nan plus a RuntimeWarning in numpy, not a ZeroDivisionError;
    that case is out of subset here, so contracts must exclude zero divisors by a pre-condition;
  * broadcasting: scalar with array, and arrays of identical shape, only;
  * scipy.spatial.transform.Rotation: only `from_rotvec(v).as_matrix()` for a concrete v that is zero or a half turn
    (pi) about one coordinate axis: the exact matrix diag(+-1) (assumes np.pi is the number pi and scipy is exact).
"""
import math as _math
import z3

from .values import *
from .core import OutOfSubset
from . import ops


class NPReal(SReal):
    """numpy float scalar (np.float64 / np.float32) in mode R"""
    __slots__ = ()
    np_value = True
    np_scalar = True

    def __repr__(self):
        return 'NPReal(%s)' % (self.t,)


class NDArray:
    np_value = True
    np_array = True

    def __init__(self, shape, items, view=False):
        self.shape = tuple(shape)
        self.items = list(items)        # row-major; python floats or SReal (never tagged, never ints)
        self.is_view = view
        self.has_views = False
        n = 1
        for d in self.shape:
            n *= d
        if n != len(self.items):
            raise OutOfSubset('internal: array shape %r with %d items' % (self.shape, len(self.items)))

    def __repr__(self):
        return 'NDArray(%r, %r)' % (self.shape, self.items)

    # -- structure
    def row(self, i):
        w = 1
        for d in self.shape[1:]:
            w *= d
        return self.items[i * w:(i + 1) * w]

    def snapshot(self, shape, items):
        """stand-in for a numpy view of self (read only, see module docstring)"""
        self.has_views = True
        return NDArray(shape, items, view=True)

    def children(self, I):
        """what iteration / indexing along the first axis yields"""
        if len(self.shape) == 0:
            I.raise_py('TypeError', 'iteration over a 0-d array')
        if len(self.shape) == 1:
            return [np_scalar(I, x) for x in self.items]
        return [self.snapshot(self.shape[1:], self.row(i)) for i in range(self.shape[0])]

    def iterator(self, I):
        """iteration: elements of a vector (read live, as numpy does), row snapshots of a matrix"""
        if len(self.shape) != 1:
            return I.get_iter(tuple(self.children(I)))
        st = {'i': 0}

        def nxt():
            if st['i'] >= len(self.items):
                raise StopIter()
            x = self.items[st['i']]
            st['i'] += 1
            return np_scalar(I, x)
        return GenIter(nxt)

    def check_writable(self):
        if self.is_view or self.has_views:
            raise OutOfSubset('write to a numpy array that is, or has handed out, a view (views are modelled as read-only snapshots)')

    def nested(self, I, shape=None, items=None):
        shape = self.shape if shape is None else shape
        items = self.items if items is None else items
        if len(shape) == 1:
            return PList([plain(x) for x in items])
        w = len(items) // shape[0] if shape[0] else 0
        return PList([self.nested(I, shape[1:], items[i * w:(i + 1) * w]) for i in range(shape[0])])

    # -- attributes / methods
    def np_getattr(self, I, name):
        if name == 'shape':
            return self.shape
        if name == 'ndim':
            return len(self.shape)
        if name == 'size':
            return len(self.items)
        if name == 'T':
            return transpose(I, self)
        if name == 'tolist':
            return Builtin('ndarray.tolist', lambda I_, a, k: self.nested(I))
        if name == 'copy':
            return Builtin('ndarray.copy', lambda I_, a, k: NDArray(self.shape, self.items))
        if name == 'flatten':
            return Builtin('ndarray.flatten', lambda I_, a, k: NDArray((len(self.items),), self.items))
        if name == 'dot':
            return Builtin('ndarray.dot', lambda I_, a, k: dot(I, self, a[0]))
        raise OutOfSubset('ndarray.%s is not modelled' % name)


def _need_R(I):
    if I.float_mode != 'R':
        raise OutOfSubset("the numpy model needs float_mode='R'")


def plain(x):
    """drop the numpy tag of a scalar"""
    if isinstance(x, NPReal):
        return SReal(x.t)
    return x


def np_scalar(I, x):
    """a numpy float scalar holding the real / float x"""
    _need_R(I)
    if isinstance(x, NPReal):
        return x
    return NPReal(ops.to_real(I, elem(I, x)))


def elem(I, x):
    """array element from a python / symbolic scalar (ints are converted as numpy does for a float array)"""
    if isinstance(x, bool) or isinstance(x, SBool):
        raise OutOfSubset('bool in a numpy array')
    if isinstance(x, NPReal):
        return SReal(x.t)
    if isinstance(x, SReal):
        return x
    if isinstance(x, float):
        if x != x or x in (float('inf'), float('-inf')):
            raise OutOfSubset('non-finite float in a numpy array (mode R)')
        return x
    if isinstance(x, int):
        return float(x)
    if isinstance(x, SInt):
        return SReal(ops.to_real(I, x))
    raise OutOfSubset('numpy array element %r' % (x,))


def is_arraylike(x):
    return isinstance(x, (NDArray, tuple, PList))


def _nested(I, x):
    """(shape, flat raw items, all_int) of an array-like"""
    if isinstance(x, NDArray):
        return x.shape, list(x.items), False
    if isinstance(x, (tuple, PList)):
        kids = [_nested(I, c) for c in ops.seq_items(x)]
        if not kids:
            return (0,), [], False
        sh = kids[0][0]
        if any(k[0] != sh for k in kids):
            raise OutOfSubset('ragged nested sequence given to numpy')
        items = []
        for k in kids:
            items.extend(k[1])
        return (len(kids),) + sh, items, all(k[2] for k in kids)
    if ops.is_number(x):
        return (), [x], ops.is_intlike(x)
    raise OutOfSubset('numpy array from %r' % (x,))


def as_array(I, x, copy=False):
    """NDArray for an array-like (the same object for an NDArray unless copy)"""
    _need_R(I)
    if isinstance(x, NDArray) and not copy:
        return x
    shape, items, all_int = _nested(I, x)
    if len(shape) == 0:
        raise OutOfSubset('0-d numpy array')
    if len(shape) > 2:
        raise OutOfSubset('numpy array with more than two dimensions')
    if all_int and items:
        raise OutOfSubset('integer numpy arrays are not modelled')
    return NDArray(shape, [elem(I, v) for v in items])


# ------------------------------------------------------------------ scalar arithmetic (numpy semantics)

def np_div(I, x, y):
    yr = ops.to_real(I, y)
    if not I.path.decide(yr != 0):
        raise OutOfSubset('numpy float division by zero (inf/nan and a RuntimeWarning, no exception) is not modelled in '
                          'mode R: the contract must exclude it by a pre-condition')
    return SReal(ops.to_real(I, x) / yr)


def sc_op(I, op, x, y):
    """x op y on untagged float-like scalars"""
    x, y = elem(I, x), elem(I, y)
    if op == '/':
        return np_div(I, x, y)
    if op in ('+', '-', '*'):
        return ops.binop(I, op, x, y)
    if op == '**' and isinstance(y, float) and y == int(y) and 0 <= y <= 4:
        return ops.binop(I, op, x, int(y))
    raise OutOfSubset('numpy operator %s' % op)


def binop(I, op, a, b):
    """entry point of ops.binop when either operand is an NDArray or a numpy scalar"""
    _need_R(I)
    if isinstance(a, NDArray) or isinstance(b, NDArray):
        return arr_binop(I, op, a, b)
    # numpy scalar with something else
    other = b if isinstance(a, NPReal) else a
    if ops.is_number(other):
        if op == '**' and not isinstance(a, NPReal):
            raise OutOfSubset('number ** numpy scalar')
        if op == '**':
            if isinstance(b, int) and not isinstance(b, bool) and 0 <= b <= 4:
                return np_scalar(I, ops.binop(I, '**', plain(a), b))
            raise OutOfSubset('numpy scalar ** %r' % (b,))
        return np_scalar(I, sc_op(I, op, a, b))
    if isinstance(other, (tuple, PList)):
        if op == '*':
            I.raise_py('TypeError', "can't multiply sequence by non-int of type 'numpy.float64'")
        return arr_binop(I, op, a, b)
    raise OutOfSubset('operator %s on numpy scalar and %r' % (op, other))


def _operand(I, x):
    """('s', scalar) or ('a', NDArray)"""
    if isinstance(x, NDArray):
        return 'a', x
    if ops.is_number(x):
        return 's', elem(I, x)
    if isinstance(x, (tuple, PList)):
        return 'a', as_array(I, x)
    raise OutOfSubset('numpy array operation with %r' % (x,))


def _elementwise(I, op, a, b):
    ka, va = _operand(I, a)
    kb, vb = _operand(I, b)
    if ka == 'a' and kb == 'a':
        if va.shape != vb.shape:
            raise OutOfSubset('numpy broadcasting between shapes %r and %r' % (va.shape, vb.shape))
        return va.shape, [sc_op(I, op, x, y) for x, y in zip(va.items, vb.items)]
    if ka == 'a':
        return va.shape, [sc_op(I, op, x, vb) for x in va.items]
    return vb.shape, [sc_op(I, op, va, y) for y in vb.items]


def arr_binop(I, op, a, b):
    if op == '**':
        if isinstance(a, NDArray) and isinstance(b, int) and not isinstance(b, bool) and 0 <= b <= 4:
            return NDArray(a.shape, [ops.binop(I, '**', x, b) for x in a.items])
        raise OutOfSubset('numpy array ** %r' % (b,))
    if op not in ('+', '-', '*', '/'):
        raise OutOfSubset('numpy array operator %s' % op)
    shape, items = _elementwise(I, op, a, b)
    return NDArray(shape, items)


def inplace(I, op, cur, val):
    """cur op= val for an NDArray cur: mutates cur (identity kept, visible through every alias)"""
    _need_R(I)
    if op not in ('+', '-', '*', '/'):
        raise OutOfSubset('numpy in-place operator %s=' % op)
    shape, items = _elementwise(I, op, cur, val)
    if shape != cur.shape:
        raise OutOfSubset('numpy in-place broadcasting')
    cur.check_writable()
    cur.items[:] = items
    return cur


def unop(I, op, a):
    _need_R(I)
    if op == 'not':
        if isinstance(a, NDArray):
            raise OutOfSubset('truth value of a numpy array')
        t = I.truth(plain(a))
        return (not t) if isinstance(t, bool) else ops.mk_bool(z3.Not(t.t))
    if op not in ('-', '+'):
        raise OutOfSubset('numpy unary %s' % op)
    if isinstance(a, NDArray):
        return NDArray(a.shape, [ops.unop(I, op, x) for x in a.items])
    return np_scalar(I, ops.unop(I, op, plain(a)))


# ------------------------------------------------------------------ indexing

def _index(I, i, n):
    if isinstance(i, SInt):
        # symbolic index: case split over the n positions (forks)
        if not I.path.decide(z3.And(i.t >= -n, i.t < n)):
            I.raise_py('IndexError', 'index is out of bounds for axis 0 with size %d' % n)
        for kk in range(-n, n):
            if I.path.decide(i.t == kk):
                return kk % n
        raise OutOfSubset('numpy index split fell through')
    if isinstance(i, bool) or not isinstance(i, int):
        raise OutOfSubset('numpy index %r (only ints and slices are modelled)' % (i,))
    j = i + n if i < 0 else i
    if j < 0 or j >= n:
        I.raise_py('IndexError', 'index %d is out of bounds for axis 0 with size %d' % (i, n))
    return j


def getitem(I, a, k):
    if isinstance(k, SliceVal):
        if k.step is not None or any(x is not None and not isinstance(x, int) for x in (k.lo, k.hi)):
            raise OutOfSubset('numpy slice with step / symbolic bounds')
        lo, hi = ops.clamp_slice(I, k.lo, k.hi, a.shape[0])
        items = []
        for i in range(lo, hi):
            items.extend(a.row(i))
        return a.snapshot((hi - lo,) + a.shape[1:], items)
    if isinstance(k, tuple):
        if len(k) != len(a.shape) or len(k) != 2:
            raise OutOfSubset('numpy index %r' % (k,))
        i, j = _index(I, k[0], a.shape[0]), _index(I, k[1], a.shape[1])
        return np_scalar(I, a.items[i * a.shape[1] + j])
    i = _index(I, k, a.shape[0])
    if len(a.shape) == 1:
        return np_scalar(I, a.items[i])
    return a.snapshot(a.shape[1:], a.row(i))


def setitem(I, a, k, v):
    a.check_writable()
    if isinstance(k, tuple) and len(k) == 2 and len(a.shape) == 2:
        i, j = _index(I, k[0], a.shape[0]), _index(I, k[1], a.shape[1])
        if not ops.is_number(v):
            raise OutOfSubset('numpy item assignment of %r' % (v,))
        a.items[i * a.shape[1] + j] = elem(I, v)
        return
    if isinstance(k, (SliceVal, tuple)):
        raise OutOfSubset('numpy slice assignment')
    i = _index(I, k, a.shape[0])
    if len(a.shape) == 1:
        if not ops.is_number(v):
            raise OutOfSubset('numpy item assignment of %r' % (v,))
        a.items[i] = elem(I, v)
        return
    row = as_array(I, v)
    if row.shape != a.shape[1:]:
        raise OutOfSubset('numpy row assignment with broadcasting')
    w = len(row.items)
    a.items[i * w:(i + 1) * w] = list(row.items)


# ------------------------------------------------------------------ numpy functions

def _no_kwargs(name, k, allowed=()):
    for kk in k:
        if kk not in allowed:
            raise OutOfSubset('%s(..., %s=) is not modelled' % (name, kk))


def _sqrt_real(I, s, base):
    """the non-negative real whose square is s (s >= 0 known)"""
    s = z3.simplify(s)
    if z3.is_rational_value(s):
        f = s.as_fraction()
        r = _math.sqrt(f)
        from fractions import Fraction
        if Fraction(r) * Fraction(r) == f:
            return z3.RealVal(str(Fraction(r)))
    r = z3.Real(I.path.fresh_name(base))
    I.path.assume(z3.And(r >= 0, r * r == s))
    return r


def _sumsq(I, items):
    s = z3.RealVal(0)
    for x in items:
        t = ops.to_real(I, x)
        s = s + t * t
    return s


def _float_dtype_only(name, k):
    d = k.get('dtype')
    if d is not None and not (getattr(d, 'name', None) in ('float', 'np.float64') or d is float):
        raise OutOfSubset('%s(..., dtype=%r) is not modelled' % (name, d))


def np_isclose(I, a, k):
    """scalar np.isclose(a, b, rtol=1e-5, atol=1e-8): |a - b| <= atol + rtol * |b| (mode R)"""
    _no_kwargs('np.isclose', k, ('rtol', 'atol'))
    if not (ops.is_number(a[0]) and ops.is_number(a[1])):
        raise OutOfSubset('np.isclose on arrays')
    x, y = ops.to_real(I, elem(I, a[0])), ops.to_real(I, elem(I, a[1]))
    rtol = ops.to_real(I, a[2] if len(a) > 2 else k.get('rtol', 1e-5))
    atol = ops.to_real(I, a[3] if len(a) > 3 else k.get('atol', 1e-8))
    ab = lambda t: z3.If(t >= 0, t, -t)      # noqa: E731
    return ops.mk_bool(ab(x - y) <= atol + rtol * ab(y))


def np_array(I, a, k):
    _no_kwargs('np.array', k, ('dtype',))
    _float_dtype_only('np.array', k)
    if len(a) != 1:
        raise OutOfSubset('np.array with %d arguments' % len(a))
    return as_array(I, a[0], copy=True)


def np_asarray(I, a, k):
    _no_kwargs('np.asarray', k)
    return as_array(I, a[0])


def _shape_arg(v):
    if isinstance(v, int) and not isinstance(v, bool):
        return (v,)
    if isinstance(v, tuple) and all(isinstance(x, int) and not isinstance(x, bool) for x in v) and 1 <= len(v) <= 2:
        return v
    raise OutOfSubset('numpy shape %r' % (v,))


def np_full(value):
    def f(I, a, k):
        _need_R(I)
        _no_kwargs('np.zeros/ones', k)
        sh = _shape_arg(a[0])
        n = 1
        for d in sh:
            n *= d
        return NDArray(sh, [value] * n)
    return f


def np_identity(I, a, k):
    _need_R(I)
    _no_kwargs('np.identity', k)
    n = a[0]
    if not isinstance(n, int) or isinstance(n, bool) or n < 0:
        raise OutOfSubset('np.identity(%r)' % (n,))
    return NDArray((n, n), [1.0 if i == j else 0.0 for i in range(n) for j in range(n)])


def np_float(bits):
    def f(I, a, k):
        _need_R(I)
        _no_kwargs('np.float%d' % bits, k)
        if bits == 32:
            I.note_assumption('np.float32 values are treated as reals (rounding to single precision ignored, mode R)')
        v = a[0] if a else 0.0
        if ops.is_number(v):
            return np_scalar(I, v)
        return as_array(I, v, copy=True)
    return f


def np_norm(I, a, k):
    _no_kwargs('np.linalg.norm', k)
    if len(a) != 1:
        raise OutOfSubset('np.linalg.norm with ord/axis')
    if ops.is_number(a[0]):
        raise OutOfSubset('np.linalg.norm of a scalar')
    arr = as_array(I, a[0])
    return NPReal(_sqrt_real(I, _sumsq(I, arr.items), 'np.norm'))


def np_sqrt(I, a, k):
    _no_kwargs('np.sqrt', k)
    x = a[0]

    def one(v):
        t = ops.to_real(I, elem(I, v))
        if I.path.decide(t < 0):
            raise OutOfSubset('np.sqrt of a negative number (nan and a RuntimeWarning) is not modelled')
        return _sqrt_real(I, t, 'np.sqrt')
    if ops.is_number(x):
        return NPReal(one(x))
    arr = as_array(I, x)
    return NDArray(arr.shape, [SReal(one(v)) for v in arr.items])


def _sum(I, items):
    acc = None
    for x in items:
        acc = x if acc is None else sc_op(I, '+', acc, x)
    return acc


def np_mean(I, a, k):
    _no_kwargs('np.mean', k, ('axis',))
    axis = a[1] if len(a) > 1 else k.get('axis')
    if ops.is_number(a[0]):
        raise OutOfSubset('np.mean of a scalar')
    arr = as_array(I, a[0])
    if not arr.items:
        raise OutOfSubset('np.mean of an empty array (nan and a RuntimeWarning) is not modelled')
    if axis is None or (axis == 0 and len(arr.shape) == 1):
        return np_scalar(I, sc_op(I, '/', _sum(I, arr.items), float(len(arr.items))))
    if axis == 0 and len(arr.shape) == 2:
        n, m = arr.shape
        return NDArray((m,), [sc_op(I, '/', _sum(I, [arr.items[i * m + j] for i in range(n)]), float(n)) for j in range(m)])
    raise OutOfSubset('np.mean(axis=%r) on shape %r' % (axis, arr.shape))


def dot(I, a, b):
    if ops.is_number(a) or ops.is_number(b):
        raise OutOfSubset('np.dot with a scalar')
    x, y = as_array(I, a), as_array(I, b)

    def sp(u, v):
        return _sum(I, [sc_op(I, '*', p, q) for p, q in zip(u, v)])
    if len(x.shape) == 1 and len(y.shape) == 1:
        if x.shape != y.shape or not x.items:
            raise OutOfSubset('np.dot of shapes %r and %r' % (x.shape, y.shape))
        return np_scalar(I, sp(x.items, y.items))
    if len(x.shape) == 2 and len(y.shape) == 1:
        if x.shape[1] != y.shape[0] or not y.items:
            raise OutOfSubset('np.dot of shapes %r and %r' % (x.shape, y.shape))
        return NDArray((x.shape[0],), [sp(x.row(i), y.items) for i in range(x.shape[0])])
    if len(x.shape) == 1 and len(y.shape) == 2:
        if x.shape[0] != y.shape[0] or not x.items:
            raise OutOfSubset('np.dot of shapes %r and %r' % (x.shape, y.shape))
        m = y.shape[1]
        return NDArray((m,), [sp(x.items, [y.items[i * m + j] for i in range(y.shape[0])]) for j in range(m)])
    if x.shape[1] != y.shape[0] or not x.shape[1]:
        raise OutOfSubset('np.dot of shapes %r and %r' % (x.shape, y.shape))
    m = y.shape[1]
    return NDArray((x.shape[0], m), [sp(x.row(i), [y.items[r * m + j] for r in range(y.shape[0])])
                                     for i in range(x.shape[0]) for j in range(m)])


def np_dot(I, a, k):
    _no_kwargs('np.dot', k)
    return dot(I, a[0], a[1])


def transpose(I, x):
    arr = as_array(I, x)
    if len(arr.shape) == 1:
        return arr
    n, m = arr.shape
    return arr.snapshot((m, n), [arr.items[i * m + j] for j in range(m) for i in range(n)])


def np_transpose(I, a, k):
    _no_kwargs('np.transpose', k)
    if len(a) != 1:
        raise OutOfSubset('np.transpose with axes')
    return transpose(I, a[0])


# ------------------------------------------------------------------ scipy.spatial.transform.Rotation (fragment)

class RotationVal:
    def __init__(self, matrix):
        self.matrix = matrix       # 9 raw items

    def np_getattr(self, I, name):
        if name == 'as_matrix':
            return Builtin('Rotation.as_matrix', lambda I_, a, k: NDArray((3, 3), self.matrix))
        raise OutOfSubset('Rotation.%s is not modelled' % name)


class RotationClass:
    def np_getattr(self, I, name):
        if name == 'from_rotvec':
            return Builtin('Rotation.from_rotvec', _from_rotvec)
        raise OutOfSubset('Rotation.%s is not modelled' % name)

    def __repr__(self):
        return '<scipy Rotation (fragment)>'


ROTATION = RotationClass()


def _from_rotvec(I, a, k):
    _need_R(I)
    if k or len(a) != 1:
        raise OutOfSubset('Rotation.from_rotvec with options')
    arr = as_array(I, a[0])
    v = arr.items
    if arr.shape != (3,) or not all(isinstance(x, float) for x in v):
        raise OutOfSubset('Rotation.from_rotvec of a symbolic / non 3-vector (only the zero rotation and half turns about a '
                          'coordinate axis are modelled)')
    nz = [i for i in range(3) if v[i] != 0.0]
    if not nz:
        return RotationVal([1.0, 0.0, 0.0, 0.0, 1.0, 0.0, 0.0, 0.0, 1.0])
    if len(nz) == 1 and abs(v[nz[0]]) == _math.pi:
        I.note_assumption('Rotation.from_rotvec of a half turn (np.pi) about a coordinate axis is the exact matrix diag(+-1) '
                          '(np.pi taken as the number pi, scipy taken as exact; natively the off-diagonal entries are ~1.2e-16)')
        d = [-1.0, -1.0, -1.0]
        d[nz[0]] = 1.0
        return RotationVal([d[0], 0.0, 0.0, 0.0, d[1], 0.0, 0.0, 0.0, d[2]])
    raise OutOfSubset('Rotation.from_rotvec(%r): only the zero rotation and half turns about a coordinate axis are modelled' % (v,))


# ------------------------------------------------------------------ wiring

array_binop = binop         # name used by the hook in ops.binop


def getattr_(I, o, name):
    return o.np_getattr(I, name)


def install(EXTERNALS, _fn):
    EXTERNALS['numpy.array'] = _fn('np.array', np_array)
    EXTERNALS['numpy.asarray'] = _fn('np.asarray', np_asarray)
    EXTERNALS['numpy.isclose'] = _fn('np.isclose', np_isclose)
    EXTERNALS['numpy.zeros'] = _fn('np.zeros', np_full(0.0))
    EXTERNALS['numpy.ones'] = _fn('np.ones', np_full(1.0))
    EXTERNALS['numpy.identity'] = _fn('np.identity', np_identity)
    EXTERNALS['numpy.eye'] = _fn('np.eye', np_identity)
    EXTERNALS['numpy.float32'] = _fn('np.float32', np_float(32))
    EXTERNALS['numpy.float64'] = _fn('np.float64', np_float(64))
    EXTERNALS['numpy.sqrt'] = _fn('np.sqrt', np_sqrt)
    EXTERNALS['numpy.mean'] = _fn('np.mean', np_mean)
    EXTERNALS['numpy.dot'] = _fn('np.dot', np_dot)
    EXTERNALS['numpy.transpose'] = _fn('np.transpose', np_transpose)
    EXTERNALS['numpy.pi'] = lambda I: _math.pi
    EXTERNALS['numpy.linalg'] = lambda I: I.load_module('numpy.linalg')
    EXTERNALS['numpy.linalg.norm'] = _fn('np.linalg.norm', np_norm)
    EXTERNALS['scipy.spatial.transform.Rotation'] = lambda I: ROTATION


# ------------------------------------------------------------------ (C13) additions: argmax; int64 vectors for fromiter/astype/tobytes

def np_argmax(I, a, k):
    """index of the first maximal element of a float vector (forks over the comparisons; no NaN in mode R)"""
    _no_kwargs('np.argmax', k)
    if len(a) != 1:
        raise OutOfSubset('np.argmax with axis')
    arr = as_array(I, a[0])
    if len(arr.shape) != 1 or not arr.items:
        raise OutOfSubset('np.argmax of shape %r' % (arr.shape,))
    best = 0
    for i in range(1, len(arr.items)):
        if I.decide(ops.compare(I, '>', arr.items[i], arr.items[best])):
            best = i
    return best


class NDIntArray:
    """one-dimensional integer array: only what np.fromiter(it, dtype=int).astype('<i2').tobytes() needs.  No arithmetic,
    no indexing (everything else on it is out of subset)."""

    def __init__(self, items, size, signed):
        self.items, self.size, self.signed = list(items), size, signed

    def np_getattr(self, I, name):
        if name == 'astype':
            return Builtin('ndarray.astype', lambda I_, a, k: self._astype(I, a, k))
        if name == 'tobytes':
            return Builtin('ndarray.tobytes', lambda I_, a, k: self._tobytes(I))
        raise OutOfSubset('integer ndarray.%s is not modelled' % name)

    def _astype(self, I, a, k):
        import re
        dt = a[0] if a else k.get('dtype')
        names = {'int8': 'i1', 'int16': 'i2', 'int32': 'i4', 'int64': 'i8', 'uint8': 'u1', 'uint16': 'u2', 'uint32': 'u4', 'uint64': 'u8'}
        m = re.match(r'^[<=|]?([iu])([1248])$', names.get(dt, dt) if isinstance(dt, str) else '')
        if m is None:
            raise OutOfSubset('integer ndarray.astype(%r)' % (dt,))
        size, signed = int(m.group(2)), m.group(1) == 'i'
        mod = 1 << (8 * size)
        out = []
        for x in self.items:        # integer -> integer conversion is the C cast: wraps modulo 2**(8*size), never raises
            if isinstance(x, int):
                w = x % mod
                out.append(w - mod if signed and w >= mod // 2 else w)
            else:
                w = ops.zterm(x) % mod
                out.append(ops.mk_int(z3.If(w >= mod // 2, w - mod, w) if signed else w))
        return NDIntArray(out, size, signed)

    def _tobytes(self, I):
        from . import structmodel
        I.note_assumption('ndarray.tobytes(): little-endian host')
        out = []
        for x in self.items:
            out.extend(structmodel.int_to_bytes(I, x, self.size, self.signed, False))
        return PBytes(out)


def np_fromiter(I, a, k):
    dt = k.get('dtype', a[1] if len(a) > 1 else None)
    if not (isinstance(dt, BuiltinType) and dt.name == 'int') and dt not in ('int', 'int64'):
        raise OutOfSubset('np.fromiter dtype %r (only dtype=int)' % (dt,))
    items = I.iterate_all(a[0])
    for x in items:
        if not ops.is_intlike(x) or isinstance(x, (bool, SBool)):
            raise OutOfSubset('np.fromiter(dtype=int) element %r' % (x,))
        t = ops.zterm(x)
        fits = (-(1 << 63) <= x < (1 << 63)) if isinstance(x, int) else I.path.decide(z3.And(t >= -(1 << 63), t < (1 << 63)))
        if not fits:
            I.raise_py('OverflowError', 'Python int too large to convert to C long')
    return NDIntArray(items, 8, True)


def install_c13(EXTERNALS, _fn):
    EXTERNALS.setdefault('numpy.argmax', _fn('np.argmax', np_argmax))
    EXTERNALS.setdefault('numpy.fromiter', _fn('np.fromiter', np_fromiter))


# ------------------------------------------------------------------ (C16) additions: np.ravel, np.concatenate (what _calc_residual needs)

def np_ravel(I, a, k):
    """np.ravel(x): the elements of an array-like (an array, or a list/tuple of equal-shape arrays / of scalars) as a
    vector, row-major.  numpy returns a view of an array argument where it can: modelled as a read-only snapshot."""
    _need_R(I)
    _no_kwargs('np.ravel', k)
    if len(a) != 1:
        raise OutOfSubset('np.ravel with order')
    x = a[0]
    if isinstance(x, NDArray):
        return x.snapshot((len(x.items),), list(x.items))
    if ops.is_number(x):
        return NDArray((1,), [elem(I, x)])
    shape, items, _all_int = _nested(I, x)
    if _all_int and items:
        raise OutOfSubset('integer numpy arrays are not modelled')
    return NDArray((len(items),), [elem(I, v) for v in items])


def np_concatenate(I, a, k):
    """np.concatenate((v1, v2, ...)) of vectors (axis 0): a new vector"""
    _need_R(I)
    _no_kwargs('np.concatenate', k)
    if len(a) != 1 or not isinstance(a[0], (tuple, PList)):
        raise OutOfSubset('np.concatenate: only a tuple / list of vectors, default axis')
    items = []
    parts = list(ops.seq_items(a[0]))
    if not parts:
        I.raise_py('ValueError', 'need at least one array to concatenate')
    for p in parts:
        if ops.is_number(p):
            I.raise_py('ValueError', 'zero-dimensional arrays cannot be concatenated')
        arr = as_array(I, p)
        if len(arr.shape) != 1:
            raise OutOfSubset('np.concatenate of arrays of shape %r' % (arr.shape,))
        items.extend(arr.items)
    return NDArray((len(items),), items)


def install_c16(EXTERNALS, _fn):
    EXTERNALS.setdefault('numpy.ravel', _fn('np.ravel', np_ravel))
    EXTERNALS.setdefault('numpy.concatenate', _fn('np.concatenate', np_concatenate))
