"""Model of the `struct` module (pack / unpack / calcsize) over symbolic values."""
import struct as _struct
import z3

from .values import *
from .core import OutOfSubset
from . import ops
from .ops import zterm, mk_int, mk_bool, is_intlike, is_floatlike

INT_CODES = {  # code: (size standard, signed)
    'b': (1, True), 'B': (1, False), 'h': (2, True), 'H': (2, False), 'i': (4, True), 'I': (4, False),
    'l': (4, True), 'L': (4, False), 'q': (8, True), 'Q': (8, False)}
NATIVE_SIZE = {'l': 8, 'L': 8}      # x86-64 Linux


def parse_format(I, fmt):
    if not isinstance(fmt, str):
        raise OutOfSubset('struct format is not a concrete string: %r' % (fmt,))
    order = '@'
    s = fmt
    if s and s[0] in '<>=!@':
        order = s[0]
        s = s[1:]
    items = []
    num = ''
    for ch in s:
        if ch.isdigit():
            num += ch
            continue
        if ch.isspace():
            continue
        cnt = int(num) if num else 1
        num = ''
        if ch in 'sp':
            items.append((ch, cnt))
        else:
            items.extend([(ch, 1)] * cnt)
    if num:
        I.raise_py('struct.error', 'repeat count given without format specifier')
    native = order == '@'
    big = order in '>!'
    out = []
    off = 0
    for ch, cnt in items:
        if ch in INT_CODES:
            size, signed = INT_CODES[ch]
            if native and ch in NATIVE_SIZE:
                size = NATIVE_SIZE[ch]
        elif ch == '?':
            size, signed = 1, False
        elif ch in 'xc':
            size, signed = 1, False
        elif ch == 'e':
            size, signed = 2, None
        elif ch == 'f':
            size, signed = 4, None
        elif ch == 'd':
            size, signed = 8, None
        elif ch == 's':
            size, signed = cnt, None
        else:
            I.raise_py('struct.error', 'bad char in struct format')
        if native and ch not in 'sxc?' and off % size != 0:
            # native mode ('@' or no prefix): every number is aligned to its own size (x86-64 Linux: alignment == size for
            # h i l q e f d); CPython inserts zero pad bytes before it and none at the end
            pad = size - off % size
            out.extend([('x', 1, False)] * pad)
            off += pad
            I.note_assumption('struct native format %r: %d alignment pad byte(s) as on x86-64 Linux' % (fmt, pad))
        out.append((ch, size, signed))
        off += size
    if native:
        I.note_assumption('struct native format %r: little-endian host, x86-64 sizes, no padding needed' % fmt)
    return out, big, off


def calcsize(I, fmt):
    return parse_format(I, fmt)[2]


def int_to_bytes(I, v, size, signed, big):
    lo, hi = (-(1 << (8 * size - 1)), (1 << (8 * size - 1)) - 1) if signed else (0, (1 << (8 * size)) - 1)
    if isinstance(v, bool):
        v = int(v)
    if isinstance(v, int):
        if not lo <= v <= hi:
            I.raise_py('struct.error', 'argument out of range')
        bs = list(v.to_bytes(size, 'little', signed=signed))
    else:
        t = zterm(v)
        if not I.path.decide(z3.And(t >= lo, t <= hi)):
            I.raise_py('struct.error', 'argument out of range')
        u = t % (1 << (8 * size)) if signed else t
        bs = [mk_int((u / (1 << (8 * i))) % 256) if size > 1 else mk_int(u) for i in range(size)]
    return bs[::-1] if big else bs


def bytes_to_int(I, bs, signed, big):
    bs = list(bs)[::-1] if big else list(bs)
    size = len(bs)
    if all(isinstance(b, int) for b in bs):
        return int.from_bytes(bytes(bs), 'little', signed=signed)
    t = None
    for i, b in enumerate(bs):
        term = zterm(b) * (1 << (8 * i)) if i else zterm(b)
        t = term if t is None else t + term
    if signed:
        t = z3.If(t >= (1 << (8 * size - 1)), t - (1 << (8 * size)), t)
    return mk_int(t)


_FSORT = {'e': F16, 'f': F32, 'd': F64}
_FBITS = {'e': 16, 'f': 32, 'd': 64}


def float_to_bytes(I, v, code, big, native=False):
    # native=True: format without byte-order prefix; CPython's native 'f' is a C cast (a too large double becomes inf, no
    # OverflowError), unlike the standard modes
    size = _FBITS[code] // 8
    if isinstance(v, (bool, int)) and not isinstance(v, float):
        try:
            v = float(v)
        except OverflowError:
            I.raise_py('OverflowError', 'int too large to convert to float')
    if isinstance(v, float):
        try:
            bs = list(_struct.pack(('@' if native and code == 'f' else '<') + code, v))
        except OverflowError as e:
            I.raise_py('OverflowError', str(e))
        return bs[::-1] if big else bs
    if isinstance(v, (SInt, SBool)):
        v = SFloat(ops.to_fp(I, v)) if I.float_mode != 'R' else SReal(ops.to_real(I, v))
    if isinstance(v, SReal):
        # mode R: opaque but functional encoding
        f = z3.Function('pack_%s_byte' % code, z3.RealSort(), z3.IntSort(), z3.IntSort())
        bs = []
        for i in range(size):
            b = f(v.t, i)
            I.path.assume(z3.And(b >= 0, b <= 255))
            bs.append(SInt(b))
        I.note_assumption('mode R: struct.pack(%r, real) is an uninterpreted injective-agnostic function' % code)
        return bs[::-1] if big else bs
    if not isinstance(v, SFloat):
        I.raise_py('struct.error', 'required argument is not a float')
    x = v.t
    if code != 'd':
        y = z3.fpFPToFP(RNE, x, _FSORT[code])
        # CPython raises OverflowError when a finite double rounds to infinity
        ovf = z3.And(z3.Not(z3.fpIsInf(x)), z3.Not(z3.fpIsNaN(x)), z3.fpIsInf(y))
        if not (native and code == 'f') and I.path.decide(ovf):
            I.raise_py('OverflowError', 'float too large to pack with %s format' % code)
    else:
        y = x
    bv = z3.fpToIEEEBV(y)
    bs = [mk_int(z3.BV2Int(z3.Extract(8 * i + 7, 8 * i, bv), False)) for i in range(size)]
    return bs[::-1] if big else bs


def bytes_to_float(I, bs, code, big):
    bs = list(bs)[::-1] if big else list(bs)
    if all(isinstance(b, int) for b in bs):
        return _struct.unpack('<' + code, bytes(bs))[0]
    if I.float_mode == 'R':
        f = z3.Function('unpack_%s' % code, *([z3.IntSort()] * len(bs) + [z3.RealSort()]))
        I.note_assumption('mode R: struct.unpack(%r) is an uninterpreted function of the bytes' % code)
        return SReal(f(*[zterm(b) for b in bs]))
    parts = [z3.Int2BV(zterm(b), 8) for b in bs]
    bv = z3.Concat(*parts[::-1]) if len(parts) > 1 else parts[0]
    x = z3.fpBVToFP(bv, _FSORT[code])
    if code != 'd':
        x = z3.fpFPToFP(RNE, x, F64)
    return ops.mk_float(x)


def pack(I, fmt, args):
    items, big, total = parse_format(I, fmt)
    need = sum(1 for it in items if it[0] != 'x')
    if len(args) != need:
        I.raise_py('struct.error', 'pack expected %d items for packing (got %d)' % (need, len(args)))
    out = []
    ai = 0
    for ch, size, signed in items:
        if ch == 'x':
            out.append(0)
            continue
        v = args[ai]
        ai += 1
        if ch in INT_CODES:
            if not is_intlike(v):
                if isinstance(v, Obj) or isinstance(v, Opaque):
                    raise OutOfSubset('struct.pack int of %r' % (v,))
                I.raise_py('struct.error', 'required argument is not an integer')
            out.extend(int_to_bytes(I, v, size, signed, big))
        elif ch == '?':
            t = I.truth(v)
            out.append(int(t) if isinstance(t, bool) else mk_int(z3.If(t.t, 1, 0)))
        elif ch in 'efd':
            if not (is_intlike(v) or is_floatlike(v)):
                I.raise_py('struct.error', 'required argument is not a float')
            out.extend(float_to_bytes(I, v, ch, big, native=not (isinstance(fmt, str) and fmt[:1] in ('<', '>', '=', '!'))))
        elif ch == 's':
            if not isinstance(v, (PBytes, PBytearray)):
                I.raise_py('struct.error', "argument for 's' must be a bytes object")
            its = list(v.items)[:size]
            out.extend(its + [0] * (size - len(its)))
        elif ch == 'c':
            if not isinstance(v, (PBytes, PBytearray)) or len(v.items) != 1:
                I.raise_py('struct.error', 'char format requires a bytes object of length 1')
            out.append(v.items[0])
        else:
            raise OutOfSubset('struct code %s' % ch)
    return PBytes(out)


def unpack(I, fmt, data):
    items, big, total = parse_format(I, fmt)
    if isinstance(data, SView):
        if not I.path.decide(ops.zi(data.ln) == total):
            I.raise_py('struct.error', 'unpack requires a buffer of %d bytes' % total)
        bs = [ops.view_elem(I, data, i) for i in range(total)]
    elif isinstance(data, SSeq):
        n = z3.Length(data.t)
        if not I.path.decide(n == total):
            I.raise_py('struct.error', 'unpack requires a buffer of %d bytes' % total)
        bs = [mk_int(data.t[i]) for i in range(total)]
    elif isinstance(data, (PBytes, PBytearray)):
        bs = list(data.items)
        if len(bs) != total:
            I.raise_py('struct.error', 'unpack requires a buffer of %d bytes' % total)
    else:
        if isinstance(data, Opaque):
            raise OutOfSubset('unpack of %r' % (data,))
        I.raise_py('TypeError', "a bytes-like object is required, not '%s'" % I.type_name(data))
    out = []
    off = 0
    for ch, size, signed in items:
        chunk = bs[off:off + size]
        off += size
        if ch == 'x':
            continue
        if ch in INT_CODES:
            out.append(bytes_to_int(I, chunk, signed, big))
        elif ch == '?':
            b = chunk[0]
            out.append(b != 0 if isinstance(b, int) else mk_bool(zterm(b) != 0))
        elif ch in 'efd':
            out.append(bytes_to_float(I, chunk, ch, big))
        elif ch in 'sc':
            out.append(PBytes(chunk))
        else:
            raise OutOfSubset('struct code %s' % ch)
    return tuple(out)
