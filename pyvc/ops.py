"""Primitive operations on values: arithmetic, comparison, truthiness, sequences.

Every function takes the interpreter `I` (for branching via I.path.decide and raising interpreted
exceptions via I.raise_py).
"""
import math
import struct as _struct
import z3

from .values import *
from .core import OutOfSubset, PyRaise

Z = z3


def zint(v):
    """z3 Int term (or python int) of an int-like value."""
    if isinstance(v, bool):
        return int(v)
    if isinstance(v, int):
        return v
    if isinstance(v, SInt):
        return v.t
    if isinstance(v, SBool):
        return z3.If(v.t, 1, 0)
    raise OutOfSubset('not an int: %r' % (v,))


def zterm(v):
    x = zint(v)
    return z3.IntVal(x) if isinstance(x, int) else x


def mk_int(t):
    if isinstance(t, int):
        return t
    t = z3.simplify(t)
    if z3.is_int_value(t):
        return t.as_long()
    return SInt(t)


def mk_bool(t):
    if isinstance(t, bool):
        return t
    t = z3.simplify(t)
    if z3.is_true(t):
        return True
    if z3.is_false(t):
        return False
    return SBool(t)


def zbool(v):
    if isinstance(v, bool):
        return z3.BoolVal(v)
    if isinstance(v, SBool):
        return v.t
    raise OutOfSubset('not a bool: %r' % (v,))


def is_intlike(v):
    return isinstance(v, (int, SInt, SBool)) and not isinstance(v, float)


def is_floatlike(v):
    return isinstance(v, (float, SFloat, SReal))


def is_number(v):
    return is_intlike(v) or is_floatlike(v)


# ---------------------------------------------------------------- floats

def fp_const(x):
    return z3.FPVal(x, F64)


def to_fp(I, v):
    """binary64 z3 term of a number."""
    if isinstance(v, SFloat):
        return v.t
    if isinstance(v, float):
        return z3.FPVal(v, F64)
    if isinstance(v, bool):
        return z3.FPVal(float(v), F64)
    if isinstance(v, int):
        f = float(v)    # may raise OverflowError on host: out of subset
        if int(f) != v:
            I.note_assumption('int->float conversion of %d is inexact; rounded as CPython does' % v)
        return z3.FPVal(f, F64)
    if isinstance(v, (SInt, SBool)):
        t = zterm(v)
        # exact when |t| < 2**53; otherwise RNE as CPython
        return z3.fpToFP(RNE, z3.ToReal(t), F64)
    raise OutOfSubset('to_fp %r' % (v,))


def to_real(I, v):
    if isinstance(v, SReal):
        return v.t
    if isinstance(v, float):
        if v != v or v in (float('inf'), float('-inf')):
            raise OutOfSubset('non-finite float in real mode')
        from fractions import Fraction
        fr = Fraction(v)
        return z3.RealVal(str(fr))
    if isinstance(v, bool):
        return z3.RealVal(int(v))
    if isinstance(v, int):
        return z3.RealVal(v)
    if isinstance(v, (SInt, SBool)):
        return z3.ToReal(zterm(v))
    raise OutOfSubset('to_real %r' % (v,))


def mk_float(t):
    t = z3.simplify(t)
    return SFloat(t)


def float_binop(I, op, a, b):
    if isinstance(a, SReal) or isinstance(b, SReal) or (I.float_mode == 'R' and (is_sym(a) or is_sym(b))):
        x, y = to_real(I, a), to_real(I, b)
        if op == '+':
            return SReal(x + y)
        if op == '-':
            return SReal(x - y)
        if op == '*':
            return SReal(x * y)
        if op == '/':
            if not I.path.decide(y != 0):
                I.raise_py('ZeroDivisionError', 'float division by zero')
            return SReal(x / y)
        raise OutOfSubset('real op ' + op)
    x, y = to_fp(I, a), to_fp(I, b)
    if op == '+':
        return mk_float(z3.fpAdd(RNE, x, y))
    if op == '-':
        return mk_float(z3.fpSub(RNE, x, y))
    if op == '*':
        return mk_float(z3.fpMul(RNE, x, y))
    if op == '/':
        if not I.path.decide(z3.Not(z3.fpIsZero(y))):
            I.raise_py('ZeroDivisionError', 'float division by zero')
        return mk_float(z3.fpDiv(RNE, x, y))
    raise OutOfSubset('float op ' + op)


def float_cmp(I, op, a, b):
    if isinstance(a, SReal) or isinstance(b, SReal) or (I.float_mode == 'R' and (is_sym(a) or is_sym(b))):
        x, y = to_real(I, a), to_real(I, b)
        return mk_bool({'<': x < y, '<=': x <= y, '>': x > y, '>=': x >= y, '==': x == y, '!=': x != y}[op])
    x, y = to_fp(I, a), to_fp(I, b)
    if op == '<':
        return mk_bool(z3.fpLT(x, y))
    if op == '<=':
        return mk_bool(z3.fpLEQ(x, y))
    if op == '>':
        return mk_bool(z3.fpGT(x, y))
    if op == '>=':
        return mk_bool(z3.fpGEQ(x, y))
    if op == '==':
        return mk_bool(z3.fpEQ(x, y))
    if op == '!=':
        return mk_bool(z3.Not(z3.fpEQ(x, y)))
    raise OutOfSubset(op)


# ---------------------------------------------------------------- ints: bit operations

def _pow2(k):
    return 1 << k


def known_bits(I, v, limit=80):
    """Smallest k <= limit with 0 <= v < 2**k provable, else None."""
    if isinstance(v, int):
        return v.bit_length() if v >= 0 else None
    t = zterm(v)
    sb = syn_bounds(I, t)
    if sb is not None and sb[0] >= 0 and sb[1].bit_length() <= limit:
        return max(sb[1].bit_length(), 1)       # syntactic bound (inputs' declared ranges, BV2Int widths ...): no solver call
    if not I.path.must(t >= 0):
        return None
    for k in (1, 2, 3, 4, 5, 8, 10, 13, 16, 23, 24, 31, 32, 40, 48, 64, limit):
        if I.path.must(t < _pow2(k)):
            return k
    return None


def low_zero_bits(v):
    """Number of low bits syntactically known to be zero (from x * 2**k shapes)."""
    if isinstance(v, int):
        if v == 0:
            return 10 ** 6
        return (v & -v).bit_length() - 1
    t = zterm(v)
    if z3.is_mul(t):
        best = 0
        for ch in t.children():
            if z3.is_int_value(ch):
                c = ch.as_long()
                if c != 0:
                    best = max(best, (c & -c).bit_length() - 1)
        return best
    if z3.is_app_of(t, z3.Z3_OP_ITE):
        a, b = t.arg(1), t.arg(2)
        return min(low_zero_bits(mk_int(a)), low_zero_bits(mk_int(b)))
    if z3.is_add(t):
        return min(low_zero_bits(mk_int(ch)) for ch in t.children())
    return 0


def and_const(x, mask):
    """x & mask for a constant mask (any sign), exact for every integer x."""
    x = zterm(x)
    if mask == 0:
        return 0
    if mask == -1:
        return mk_int(x)
    res = 0
    # decompose into runs of one bits
    m = mask
    pos = 0
    terms = []
    if m < 0:
        # infinite ones above top
        top = (~m).bit_length()   # bits >= top are all one
        finite = m & ((1 << top) - 1)
        terms.append((x / _pow2(top)) * _pow2(top)) if top > 0 else terms.append(x)
        m = finite
    while m:
        if m & 1:
            lo = pos
            while m & 1:
                m >>= 1
                pos += 1
            hi = pos
            terms.append(((x / _pow2(lo)) % _pow2(hi - lo)) * _pow2(lo))
        else:
            m >>= 1
            pos += 1
    t = terms[0]
    for u in terms[1:]:
        t = t + u
    return mk_int(t)


def bv_binop(I, op, a, b):
    ka, kb = known_bits(I, a), known_bits(I, b)
    if ka is None or kb is None:
        raise OutOfSubset('bitwise %s on integers without a provable non-negative bound' % op)
    w = max(ka, kb, 1)
    x, y = z3.Int2BV(zterm(a), w), z3.Int2BV(zterm(b), w)
    r = {'&': x & y, '|': x | y, '^': x ^ y}[op]
    return mk_int(z3.BV2Int(r, False))


def _trunc_arg(t):
    """v when t is the engine's model of int(v) for a real v, If(v >= 0, ToInt(v), -ToInt(-v)); else None"""
    if z3.is_app_of(t, z3.Z3_OP_ITE):
        c, a, b = t.children()
        if z3.is_app_of(a, z3.Z3_OP_TO_INT) and z3.is_app_of(c, z3.Z3_OP_GE):
            v = a.arg(0)
            if c.arg(0).eq(v) and z3.is_rational_value(c.arg(1)) and c.arg(1).as_fraction() == 0 and \
                    z3.simplify(-z3.ToInt(-v)).eq(b):
                return v
    return None


def record_bounds(I, t, lo, hi, fact=None):
    """(C13) lo <= t <= hi has just been PROVED valid under the path condition: keep it as a fact of the path (sound:
    it is implied) so that later queries get it as a linear fact, and remember it for syn_bounds"""
    tb = getattr(I.path, 'term_bounds', None)
    if tb is None:
        tb = I.path.term_bounds = {}
    tb[t.get_id()] = (t, lo, hi)
    I.path.assume(fact if fact is not None else z3.And(t >= lo, t <= hi))


def syn_bounds(I, t, depth=0):
    """(C13) (lo, hi) of an Int term by interval arithmetic over constants, + - *, if-then-else and terms whose bounds
    were recorded by record_bounds; None when unknown.  No solver call."""
    if z3.is_int_value(t):
        v = t.as_long()
        return (v, v)
    tb = getattr(I.path, 'term_bounds', None)
    if tb is not None and t.get_id() in tb:
        return tb[t.get_id()][1:]
    if depth > 40 or not z3.is_app(t) or not z3.is_int(t):
        return None
    k = t.decl().kind()
    ch = t.children()
    if k in (getattr(z3, 'Z3_OP_BV2INT', -1), getattr(z3, 'Z3_OP_UBV2INT', -2)):
        p = t.params()
        if not p or p[0] == 0:                  # unsigned conversion of a w-bit vector
            return (0, (1 << ch[0].size()) - 1)
        return None
    if k == z3.Z3_OP_MOD and z3.is_int_value(ch[1]) and ch[1].as_long() > 0:
        return (0, ch[1].as_long() - 1)
    if k == z3.Z3_OP_IDIV and z3.is_int_value(ch[1]) and ch[1].as_long() > 0:
        x = syn_bounds(I, ch[0], depth + 1)
        return None if x is None else (x[0] // ch[1].as_long(), x[1] // ch[1].as_long())
    if k == z3.Z3_OP_ITE:
        x, y = syn_bounds(I, ch[1], depth + 1), syn_bounds(I, ch[2], depth + 1)
        return None if x is None or y is None else (min(x[0], y[0]), max(x[1], y[1]))
    if k in (z3.Z3_OP_ADD, z3.Z3_OP_SUB, z3.Z3_OP_MUL, z3.Z3_OP_UMINUS):
        bs = [syn_bounds(I, c, depth + 1) for c in ch]
        if any(b is None for b in bs):
            return None
        if k == z3.Z3_OP_UMINUS:
            return (-bs[0][1], -bs[0][0])
        lo, hi = bs[0]
        for x, y in bs[1:]:
            if k == z3.Z3_OP_ADD:
                lo, hi = lo + x, hi + y
            elif k == z3.Z3_OP_SUB:
                lo, hi = lo - y, hi - x
            else:
                c4 = [lo * x, lo * y, hi * x, hi * y]
                lo, hi = min(c4), max(c4)
        return (lo, hi)
    return None


def int_bitop(I, op, a, b):
    if isinstance(a, bool) and isinstance(b, bool):
        return {'&': a & b, '|': a | b, '^': a ^ b}[op]
    if isinstance(a, (bool, SBool)) and isinstance(b, (bool, SBool)):
        x, y = zbool(a), zbool(b)
        return mk_bool({'&': z3.And(x, y), '|': z3.Or(x, y), '^': z3.Xor(x, y)}[op])
    if isinstance(a, int) and isinstance(b, int):
        return {'&': a & b, '|': a | b, '^': a ^ b}[op]
    if op == '&':
        if isinstance(b, int):
            return and_const(a, b)
        if isinstance(a, int):
            return and_const(b, a)
        return bv_binop(I, op, a, b)
    if op == '|':
        # disjoint bit ranges -> addition
        # (C13) first without the scan of known_bits (up to 17 solver calls per operand): bounds that are syntactic
        # or were proved earlier on this path, then ONE query for exactly the width that matters
        for x, y in ((a, b), (b, a)):
            lz = low_zero_bits(y)
            if 0 < lz < 10 ** 6:
                sb = syn_bounds(I, zterm(x))
                if sb is not None and sb[0] >= 0 and sb[1] < _pow2(lz):
                    return mk_int(zterm(x) + zterm(y))
        for x, y in ((a, b), (b, a)):
            lz = low_zero_bits(y)
            if 0 < lz < 10 ** 6 and not isinstance(x, int) and syn_bounds(I, zterm(x)) is None:
                t = zterm(x)
                v = _trunc_arg(t)
                # int(real): 0 <= v < 2**lz gives 0 <= int(v) < 2**lz, and is a query over the reals only
                fact = z3.And(v >= 0, v < _pow2(lz)) if v is not None else z3.And(t >= 0, t < _pow2(lz))
                if I.path.must(fact):
                    record_bounds(I, t, 0, _pow2(lz) - 1, fact)
                    return mk_int(t + zterm(y))
        for x, y in ((a, b), (b, a)):
            lz = low_zero_bits(y)
            if lz > 0:
                kx = known_bits(I, x)
                if kx is not None and kx <= lz:
                    return mk_int(zterm(x) + zterm(y))
        if isinstance(a, int) and a == 0:
            return b
        if isinstance(b, int) and b == 0:
            return a
        return bv_binop(I, op, a, b)
    if isinstance(a, int) and not isinstance(a, bool) and a == 0:      # 0 ^ x == x for every integer
        return b
    if isinstance(b, int) and not isinstance(b, bool) and b == 0:
        return a
    return bv_binop(I, op, a, b)


def int_shift(I, op, a, b):
    if isinstance(a, int) and isinstance(b, int):
        if b < 0:
            I.raise_py('ValueError', 'negative shift count')
        return a << b if op == '<<' else a >> b
    if not isinstance(b, int):
        # symbolic shift amount: case split over a small proved range
        kb = known_bits(I, b, limit=6)
        if kb is None:
            raise OutOfSubset('shift by unbounded symbolic amount')
        t = None
        for k in range((1 << kb) - 1, -1, -1):
            v = zterm(a) * _pow2(k) if op == '<<' else zterm(a) / _pow2(k)
            t = v if t is None else z3.If(zterm(b) == k, v, t)
        return mk_int(t)
    if b < 0:
        I.raise_py('ValueError', 'negative shift count')
    if op == '<<':
        return mk_int(zterm(a) * _pow2(b))
    return mk_int(zterm(a) / _pow2(b))     # z3 div by positive constant == floor


def int_floordiv(I, a, b, want_mod=False):
    if isinstance(a, (int, bool)) and isinstance(b, (int, bool)):
        if b == 0:
            I.raise_py('ZeroDivisionError', 'integer division or modulo by zero')
        return a % b if want_mod else a // b
    x, y = zterm(a), zterm(b)
    if isinstance(b, int) and not isinstance(b, bool):
        if b == 0:
            I.raise_py('ZeroDivisionError', 'integer division or modulo by zero')
        if b > 0:
            return mk_int(x % b if want_mod else x / b)
        # negative constant divisor
        q = (-x) / (-b)
        return mk_int((x - q * b) if want_mod else q)
    if not I.path.decide(y != 0):
        I.raise_py('ZeroDivisionError', 'integer division or modulo by zero')
    q = z3.If(y > 0, x / y, (-x) / (-y))
    return mk_int((x - q * y) if want_mod else q)


# ---------------------------------------------------------------- generic binary op

def binop(I, op, a, b):
    if getattr(a, 'np_value', False) or getattr(b, 'np_value', False):      # numpy arrays / numpy scalars (numpy_model.py)
        from . import numpy_model
        return numpy_model.array_binop(I, op, a, b)
    # sequences first
    if op == '+' and (is_seq(a) or is_seq(b) or isinstance(a, (str, PStr)) or isinstance(b, (str, PStr))):
        return seq_concat(I, a, b)
    if op == '*' and (is_seq(a) or isinstance(a, str)) and is_intlike(b):
        return seq_repeat(I, a, b)
    if op == '*' and (is_seq(b) or isinstance(b, str)) and is_intlike(a):
        return seq_repeat(I, b, a)
    if op == '%' and isinstance(a, (str, PStr)):
        return I.str_percent(a, b)
    if is_number(a) and is_number(b):
        if op in ('&', '|', '^'):
            if not (is_intlike(a) and is_intlike(b)):
                I.raise_py('TypeError', 'unsupported operand type(s) for %s' % op)
            return int_bitop(I, op, a, b)
        if op in ('<<', '>>'):
            if not (is_intlike(a) and is_intlike(b)):
                I.raise_py('TypeError', 'unsupported operand type(s) for %s' % op)
            return int_shift(I, op, a, b)
        if not is_sym(a) and not is_sym(b):
            try:
                if op == '+':
                    return a + b
                if op == '-':
                    return a - b
                if op == '*':
                    return a * b
                if op == '/':
                    return a / b
                if op == '//':
                    return a // b
                if op == '%':
                    return a % b
                if op == '**':
                    return a ** b
            except ZeroDivisionError as e:
                I.raise_py('ZeroDivisionError', str(e))
            except OverflowError as e:
                I.raise_py('OverflowError', str(e))
        if is_floatlike(a) or is_floatlike(b):
            if op in '+-*/' and len(op) == 1:
                return float_binop(I, op, a, b)
            if op == '**' and isinstance(b, int) and not isinstance(b, bool) and 0 <= b <= 4:
                r = 1.0
                for _ in range(b):
                    r = float_binop(I, '*', r, a)
                return r
            raise OutOfSubset('float operator %s' % op)
        # both int-like, at least one symbolic
        if op == '+':
            return mk_int(zterm(a) + zterm(b))
        if op == '-':
            return mk_int(zterm(a) - zterm(b))
        if op == '*':
            return mk_int(zterm(a) * zterm(b))
        if op == '//':
            return int_floordiv(I, a, b)
        if op == '%':
            return int_floordiv(I, a, b, want_mod=True)
        if op == '/':
            if I.float_mode == 'R':
                return float_binop(I, '/', SReal(to_real(I, a)), SReal(to_real(I, b)))
            # exact when both are below 2**53 in magnitude (checked)
            for v in (a, b):
                t = zterm(v)
                if not I.path.must(z3.And(t > -(1 << 53), t < (1 << 53))):
                    raise OutOfSubset('int/int true division beyond 2**53')
            return float_binop(I, '/', SFloat(to_fp(I, a)), SFloat(to_fp(I, b)))
        if op == '**':
            if isinstance(b, int) and 0 <= b <= 8:
                t = z3.IntVal(1)
                for _ in range(b):
                    t = t * zterm(a)
                return mk_int(t)
            if isinstance(a, int) and a == 2:
                kb = known_bits(I, b, limit=6)
                if kb is not None:
                    t = None
                    for k in range((1 << kb) - 1, -1, -1):
                        t = z3.IntVal(1 << k) if t is None else z3.If(zterm(b) == k, 1 << k, t)
                    return mk_int(t)
            raise OutOfSubset('symbolic **')
        raise OutOfSubset('operator %s' % op)
    if a is None or b is None:
        I.raise_py('TypeError', 'unsupported operand type(s) for %s: %s and %s' % (op, I.type_name(a), I.type_name(b)))
    if isinstance(a, Opaque) or isinstance(b, Opaque):
        raise OutOfSubset('operator %s on %r, %r' % (op, a, b))
    if isinstance(a, Obj):
        m = I.find_method(a, {'+': '__add__', '-': '__sub__', '*': '__mul__', '==': '__eq__'}.get(op, '__nope__'))
        if m is not None:
            return I.call(m, [b], {})
    I.raise_py('TypeError', 'unsupported operand type(s) for %s: %s and %s' % (op, I.type_name(a), I.type_name(b)))


def unop(I, op, a):
    if getattr(a, 'np_value', False):       # numpy arrays / numpy scalars (numpy_model.py)
        from . import numpy_model
        return numpy_model.unop(I, op, a)
    if op == 'not':
        t = I.truth(a)
        return (not t) if isinstance(t, bool) else mk_bool(z3.Not(t.t))
    if op == '-':
        if isinstance(a, (int, float)) and not is_sym(a):
            return -a
        if is_intlike(a):
            return mk_int(-zterm(a))
        if isinstance(a, SFloat):
            return mk_float(z3.fpNeg(a.t))
        if isinstance(a, SReal):
            return SReal(-a.t)
    if op == '+':
        if is_number(a):
            return a
    if op == '~':
        if isinstance(a, (int, bool)):
            return ~a
        if is_intlike(a):
            return mk_int(-zterm(a) - 1)
    I.raise_py('TypeError', 'bad operand type for unary %s: %s' % (op, I.type_name(a)))


# ---------------------------------------------------------------- comparison

def is_seq(v):
    return isinstance(v, (PList, PBytearray, PBytes, tuple, SSeq, SView)) and not isinstance(v, str)


def zi(x):
    return z3.IntVal(x) if isinstance(x, int) else x


def view_elem(I, v, j):
    """element j (term, relative to the window) of a view; bytes kinds carry their range invariant"""
    t = z3.Select(v.arr, z3.simplify(zi(v.off) + zi(j)))
    if v.kind in ('bytes', 'bytearray') or getattr(v, 'byte_range', False):
        I.path.assume(z3.And(t >= 0, t <= 255))
    return mk_int(t)


def view_items(I, v, limit=64):
    n = small_value(I, mk_int(zi(v.ln)), limit)
    return list(v.pre) + [view_elem(I, v, i) for i in range(n)]


def view_like(v, off, ln, kind=None, pre=None):
    r = SView(v.arr, off, ln, kind or v.kind, pre)
    r.byte_range = getattr(v, 'byte_range', False)
    return r


def seq_items(v):
    if isinstance(v, tuple):
        return list(v)
    if isinstance(v, (PList, PBytearray)):
        return v.items
    if isinstance(v, PBytes):
        return list(v.items)
    if isinstance(v, PStr):
        return list(v.chars)
    raise OutOfSubset('items of %r' % (v,))


def seq_kind(v):
    if isinstance(v, NTVal):
        return 'tuple'
    if isinstance(v, tuple):
        return 'tuple'
    return v.kind


def py_eq(I, a, b):
    """a == b as python bool or SBool."""
    if a is b and not isinstance(a, (float, SFloat)):
        return True
    if getattr(a, 'np_array', False) or getattr(b, 'np_array', False):      # numpy_model.py
        raise OutOfSubset('== on numpy arrays is elementwise (not modelled)')
    if a is None or b is None:
        return a is None and b is None
    if is_number(a) and is_number(b):
        if not is_sym(a) and not is_sym(b):
            return a == b
        if is_floatlike(a) or is_floatlike(b):
            return float_cmp(I, '==', a, b)
        if isinstance(a, (bool, SBool)) and isinstance(b, (bool, SBool)):
            return mk_bool(zbool(a) == zbool(b))
        return mk_bool(zterm(a) == zterm(b))
    if isinstance(a, (str, PStr)) and isinstance(b, (str, PStr)):
        if isinstance(a, str) and isinstance(b, str):
            return a == b
        ca = [ord(c) for c in a] if isinstance(a, str) else list(a.chars)
        cb = [ord(c) for c in b] if isinstance(b, str) else list(b.chars)
        if len(ca) != len(cb):
            return False
        return conj(I, [py_eq(I, x, y) for x, y in zip(ca, cb)])
    if isinstance(a, (str, PStr)) or isinstance(b, (str, PStr)):
        return False
    if is_seq(a) and is_seq(b):
        ka, kb = seq_kind(a), seq_kind(b)
        compat = ka == kb or {ka, kb} == {'bytes', 'bytearray'}
        if not compat:
            return False
        if isinstance(a, SView) or isinstance(b, SView):
            if isinstance(a, SView) and isinstance(b, SView):
                if len(a.pre) != len(b.pre):
                    raise OutOfSubset('== between views with different concrete prefixes')
                if a.arr.eq(b.arr) if hasattr(a.arr, 'eq') else False:
                    same = z3.And(zi(a.ln) == zi(b.ln), z3.Or(zi(a.ln) == 0, zi(a.off) == zi(b.off)))
                    r = conj(I, [mk_bool(same)] + [py_eq(I, x, y) for x, y in zip(a.pre, b.pre)])
                    if r is True or I.spec_mode:
                        # sufficient condition for equality (same window of the same array): sound for PROVING an equality
                        return r
                raise OutOfSubset('== between symbolic-length views that are not windows of one array')
            v, o = (a, b) if isinstance(a, SView) else (b, a)
            if isinstance(o, SSeq):
                raise OutOfSubset('== between a view and a z3 sequence')
            items = seq_items(o)
            np_ = len(v.pre)
            if len(items) < np_:
                return False
            return conj(I, [mk_bool(zi(v.ln) == len(items) - np_)] + [py_eq(I, x, y) for x, y in zip(v.pre, items[:np_])] +
                        [py_eq(I, mk_int(z3.Select(v.arr, z3.simplify(zi(v.off) + i))), x) for i, x in enumerate(items[np_:])])
        if isinstance(a, SSeq) or isinstance(b, SSeq):
            return mk_bool(seq_term(a) == seq_term(b))
        ia, ib = seq_items(a), seq_items(b)
        if len(ia) != len(ib):
            return False
        return conj(I, [py_eq(I, x, y) for x, y in zip(ia, ib)])
    if isinstance(a, PDict) and isinstance(b, PDict):
        if len(a.keys) != len(b.keys):
            return False
        parts = []
        for k, v in zip(a.keys, a.vals):
            idx = I.dict_find(b, k)
            if idx is None:
                return False
            parts.append(py_eq(I, v, b.vals[idx]))
        return conj(I, parts)
    if isinstance(a, Obj):
        m = I.find_method(a, '__eq__')
        if m is not None:
            return I.call(m, [b], {})
        return a is b
    if isinstance(b, Obj):
        m = I.find_method(b, '__eq__')
        if m is not None:
            return I.call(m, [a], {})
        return False
    if isinstance(a, BoundMethod) and isinstance(b, BoundMethod):
        return a.func is b.func and a.self_obj is b.self_obj
    if isinstance(a, Opaque) or isinstance(b, Opaque):
        sa, sb = getattr(a, 'src', None), getattr(b, 'src', None)
        if sa is not None and sb is not None and a.what == b.what and a.what in ('str(int)', 'str(float)'):
            # str() is injective on ints and on non-NaN floats of one type
            return py_eq(I, sa, sb) if a.what == 'str(int)' else mk_bool(to_fp(I, sa) == to_fp(I, sb)) if I.float_mode != 'R' else py_eq(I, sa, sb)
        raise OutOfSubset('== on opaque value %r / %r' % (a, b))
    if isinstance(a, ExcVal) or isinstance(b, ExcVal):
        return a is b
    if type(a) is type(b) and isinstance(a, (Ext, FuncVal, ClassVal, Builtin, ExcClass, LockVal, QueueVal, ModuleVal)):
        return a is b
    return False


def conj(I, parts):
    ts = []
    for p in parts:
        if p is False:
            return False
        if p is True:
            continue
        ts.append(p.t)
    if not ts:
        return True
    return mk_bool(z3.And(*ts))


def disj(I, parts):
    ts = []
    for p in parts:
        if p is True:
            return True
        if p is False:
            continue
        ts.append(p.t)
    if not ts:
        return False
    return mk_bool(z3.Or(*ts))


def neg(v):
    if isinstance(v, bool):
        return not v
    return mk_bool(z3.Not(v.t))


def compare(I, op, a, b):
    if op == '==':
        return py_eq(I, a, b)
    if op == '!=':
        return neg(py_eq(I, a, b))
    if op == 'is':
        return py_is(I, a, b)
    if op == 'is not':
        return neg(py_is(I, a, b))
    if op == 'in':
        return contains(I, b, a)
    if op == 'not in':
        return neg(contains(I, b, a))
    if is_number(a) and is_number(b):
        if not is_sym(a) and not is_sym(b):
            return {'<': a < b, '<=': a <= b, '>': a > b, '>=': a >= b}[op]
        if is_floatlike(a) or is_floatlike(b):
            return float_cmp(I, op, a, b)
        x, y = zterm(a), zterm(b)
        return mk_bool({'<': x < y, '<=': x <= y, '>': x > y, '>=': x >= y}[op])
    if isinstance(a, str) and isinstance(b, str):
        return {'<': a < b, '<=': a <= b, '>': a > b, '>=': a >= b}[op]
    if is_seq(a) and is_seq(b) and not isinstance(a, SSeq) and not isinstance(b, SSeq):
        ia, ib = seq_items(a), seq_items(b)
        if all(not is_sym(x) for x in ia + ib):
            ta, tb = tuple(ia), tuple(ib)
            return {'<': ta < tb, '<=': ta <= tb, '>': ta > tb, '>=': ta >= tb}[op]
    if a is None or b is None:
        I.raise_py('TypeError', "'%s' not supported between instances of %s and %s" % (op, I.type_name(a), I.type_name(b)))
    raise OutOfSubset('compare %s on %r, %r' % (op, a, b))


def py_is(I, a, b):
    if a is None or b is None:
        return a is None and b is None
    if isinstance(a, bool) and isinstance(b, bool):
        return a == b
    if isinstance(a, (bool, SBool)) and isinstance(b, (bool, SBool)):
        return mk_bool(zbool(a) == zbool(b))
    if isinstance(a, (bool, SBool)) or isinstance(b, (bool, SBool)):
        # `x is False` with x an int-like non-bool: False in CPython
        return False
    if isinstance(a, int) and isinstance(b, int):
        if a == b and -5 <= a <= 256:
            return True
        if a != b:
            return False
        raise OutOfSubset('`is` on large equal ints (identity is implementation defined)')
    if isinstance(a, str) and isinstance(b, str):
        if a != b:
            return False
        return True     # interned constants in practice; noted as assumption
    if isinstance(a, BoundMethod) and isinstance(b, BoundMethod):
        # a BoundMethod value is created by every attribute access (interp.getattr / bind_class_attr) and never copied, exactly
        # as CPython creates a new method object per access: two values that are alive at the same time are the same
        # CPython object iff they are the same value here (C07 remove.bound-method: `obj.m is obj.m` is False)
        return a is b
    if is_sym(a) or is_sym(b):
        raise OutOfSubset('`is` on symbolic scalars')
    return a is b


def OutOfSubsetRaise(msg):
    raise OutOfSubset(msg)


def contains(I, container, item):
    if isinstance(container, PDict):
        return disj(I, [py_eq(I, k, item) for k in container.keys])
    if isinstance(container, PSet):
        return disj(I, [py_eq(I, k, item) for k in container.items])
    if isinstance(container, str) and isinstance(item, str):
        return item in container
    if isinstance(container, RangeVal):
        r = container
        if all(isinstance(x, int) for x in (r.start, r.stop, r.step)) and r.step == 1:
            return mk_bool(z3.And(zterm(item) >= r.start, zterm(item) < r.stop)) if is_sym(item) else (item in range(r.start, r.stop))
        raise OutOfSubset('in range(...) with symbolic bounds')
    if isinstance(container, SSeq):
        return mk_bool(z3.Contains(container.t, z3.Unit(zterm(item))))
    if is_seq(container):
        if isinstance(container, (PBytes, PBytearray)) and isinstance(item, (PBytes, PBytearray)):
            raise OutOfSubset('subsequence test on bytes')
        return disj(I, [py_eq(I, k, item) for k in seq_items(container)])
    if isinstance(container, Obj):
        m = I.find_method(container, '__contains__')
        if m is not None:
            return I.truth(I.call(m, [item], {}))
    raise OutOfSubset('in on %r' % (container,))


# ---------------------------------------------------------------- sequences

IntSeq = z3.SeqSort(z3.IntSort())


def seq_term(v):
    if isinstance(v, SSeq):
        return v.t
    items = seq_items(v)
    if not items:
        return z3.Empty(IntSeq)
    us = [z3.Unit(zterm(x)) for x in items]
    return us[0] if len(us) == 1 else z3.Concat(*us)


def mk_seq(kind, items):
    if kind == 'tuple':
        return tuple(items)
    if kind == 'list':
        return PList(items)
    if kind == 'bytes':
        return PBytes(items)
    if kind == 'bytearray':
        return PBytearray(items)
    if kind == 'str':
        if all(isinstance(c, int) for c in items):
            return ''.join(chr(c) for c in items)
        return PStr(items)
    raise OutOfSubset(kind)


def seq_concat(I, a, b):
    if isinstance(a, str) and isinstance(b, str):
        return a + b
    if isinstance(a, (str, PStr)) and isinstance(b, (str, PStr)):
        ca = [ord(c) for c in a] if isinstance(a, str) else list(a.chars)
        cb = [ord(c) for c in b] if isinstance(b, str) else list(b.chars)
        return mk_seq('str', ca + cb)
    if not (is_seq(a) and is_seq(b)):
        I.raise_py('TypeError', 'can only concatenate %s (not "%s")' % (I.type_name(a), I.type_name(b)))
    ka, kb = seq_kind(a), seq_kind(b)
    if ka != kb and not ({ka, kb} <= {'bytes', 'bytearray'}):
        I.raise_py('TypeError', 'can only concatenate %s (not "%s") to %s' % (ka, kb, ka))
    if isinstance(a, SView) or isinstance(b, SView):
        if isinstance(a, SView) and isinstance(b, SView) and a.arr.eq(b.arr) and not b.pre:
            if I.path.must(zi(a.off) + zi(a.ln) == zi(b.off)):
                return view_like(a, a.off, z3.simplify(zi(a.ln) + zi(b.ln)), ka, a.pre)
        if isinstance(b, SView) and not isinstance(a, (SView, SSeq)):
            return view_like(b, b.off, b.ln, ka, seq_items(a) + list(b.pre))
        if isinstance(a, SView) and not isinstance(b, (SView, SSeq)) and I.path.must(zi(a.ln) == 0):
            return view_like(a, a.off, a.ln, ka, list(a.pre) + seq_items(b))
        for x, y in ((a, b), (b, a)):
            ly = seq_len(I, y)
            if (isinstance(ly, int) and ly == 0) or (not isinstance(ly, int) and I.path.must(zterm(ly) == 0)):
                if isinstance(x, SView):
                    return view_like(x, x.off, x.ln, ka, x.pre)
                return mk_seq(ka, seq_items(x))
        raise OutOfSubset('concatenation of symbolic-length views that are not adjacent windows of one array')
    if isinstance(a, SSeq) or isinstance(b, SSeq):
        return SSeq(z3.Concat(seq_term(a), seq_term(b)), ka)
    return mk_seq(ka, seq_items(a) + seq_items(b))


def small_value(I, n, limit=64):
    """python int for a symbolic int that is provably within 0..limit (forks over the values)"""
    if isinstance(n, bool):
        return int(n)
    if isinstance(n, int):
        return n
    t = zterm(n)
    if not I.path.must(z3.And(t >= 0, t <= limit)):
        raise OutOfSubset('symbolic count without a provable bound 0..%d' % limit)
    for k in range(limit + 1):
        if I.path.decide(t == k):
            return k
    raise OutOfSubset('small_value fell through')


def seq_repeat(I, a, n):
    if isinstance(a, str) and isinstance(n, int):
        return a * n
    if not isinstance(n, int):
        n = small_value(I, n)
        if isinstance(a, str):
            return a * n
    if isinstance(a, SSeq):
        raise OutOfSubset('repeat of symbolic sequence')
    return mk_seq(seq_kind(a), seq_items(a) * max(n, 0))


def seq_len(I, v):
    if isinstance(v, str):
        return len(v)
    if type(v).__name__ == 'NDArray':       # numpy arrays (numpy_model.py)
        return v.shape[0]
    if isinstance(v, PStr):
        return len(v.chars)
    if isinstance(v, SSeq):
        return mk_int(z3.Length(v.t))
    if isinstance(v, SView):
        return mk_int(zi(v.ln) + len(v.pre))
    if isinstance(v, PDict):
        return len(v.keys)
    if isinstance(v, PSet):
        return len(v.items)
    if isinstance(v, QueueVal):
        return len(v.items)
    if isinstance(v, RangeVal):
        if all(isinstance(x, int) for x in (v.start, v.stop, v.step)):
            return len(range(v.start, v.stop, v.step))
        if v.step == 1:
            d = zterm(v.stop) - zterm(v.start)
            return mk_int(z3.If(d > 0, d, 0))
        raise OutOfSubset('len(range) symbolic step')
    if is_seq(v):
        return len(seq_items(v))
    if isinstance(v, Obj):
        m = I.find_method(v, '__len__')
        if m is not None:
            return I.call(m, [], {})
    if v is None or is_number(v):
        I.raise_py('TypeError', "object of type '%s' has no len()" % I.type_name(v))
    raise OutOfSubset('len of %r' % (v,))


def select(I, items, idx):
    """items[idx] for a concrete-length host list and symbolic in-range idx."""
    if all(is_intlike(x) for x in items):
        t = zterm(items[-1])
        for k in range(len(items) - 2, -1, -1):
            t = z3.If(idx == k, zterm(items[k]), t)
        return mk_int(t)
    # non-mergeable: branch
    for k in range(len(items)):
        if I.path.decide(idx == k):
            return items[k]
    raise OutOfSubset('select fell through')


def norm_index(I, v, idx, n):
    """Normalise a (possibly negative) index against length n (int); raises IndexError."""
    if isinstance(idx, bool):
        idx = int(idx)
    if isinstance(idx, int):
        j = idx + n if idx < 0 else idx
        if j < 0 or j >= n:
            I.raise_py('IndexError', '%s index out of range' % I.type_name(v))
        return j
    if not is_intlike(idx):
        I.raise_py('TypeError', 'indices must be integers, not %s' % I.type_name(idx))
    t = zterm(idx)
    ok = z3.And(t >= -n, t < n)
    if not I.path.decide(ok):
        I.raise_py('IndexError', '%s index out of range' % I.type_name(v))
    return z3.simplify(z3.If(t < 0, t + n, t))


def seq_getitem(I, v, idx):
    if isinstance(idx, SliceVal):
        return seq_slice(I, v, idx)
    if isinstance(v, SView):
        np_ = len(v.pre)
        n = zi(v.ln) + np_
        t = zterm(idx)
        ok = z3.And(t >= -n, t < n)
        if not I.path.decide(ok):
            I.raise_py('IndexError', '%s index out of range' % v.kind)
        j = z3.simplify(z3.If(t < 0, t + n, t))
        if np_:
            if I.path.decide(j < np_):
                return select(I, v.pre, j) if not z3.is_int_value(j) else v.pre[j.as_long()]
            j = z3.simplify(j - np_)
        return view_elem(I, v, j)
    if isinstance(v, SSeq):
        n = z3.Length(v.t)
        t = zterm(idx)
        ok = z3.And(t >= -n, t < n)
        if not I.path.decide(ok):
            I.raise_py('IndexError', '%s index out of range' % v.kind)
        j = z3.If(t < 0, t + n, t)
        return mk_int(v.t[j])
    if isinstance(v, str):
        if isinstance(idx, int):
            j = norm_index(I, v, idx, len(v))
            return v[j]
        raise OutOfSubset('symbolic index into str')
    if isinstance(v, PStr):
        j = norm_index(I, v, idx, len(v.chars))
        if isinstance(j, int):
            return mk_seq('str', [v.chars[j]])
        raise OutOfSubset('symbolic index into str')
    items = seq_items(v)
    j = norm_index(I, v, idx, len(items))
    if isinstance(j, int):
        return items[j]
    return select(I, items, j)


def clamp_slice(I, lo, hi, n):
    """Concrete (lo, hi) for a slice with concrete bounds against concrete length n."""
    if lo is None:
        lo = 0
    if hi is None:
        hi = n
    if lo < 0:
        lo = max(n + lo, 0)
    if hi < 0:
        hi = max(n + hi, 0)
    lo = min(lo, n)
    hi = min(hi, n)
    return lo, max(hi, lo)


def concretize_bound(I, b, n):
    """Make a symbolic slice bound concrete by case split over -n..n (+ out of range classes)."""
    if b is None or isinstance(b, int):
        return b
    t = zterm(b)
    if I.path.decide(t >= n):
        return n
    if I.path.decide(t <= -n):
        return -n if n > 0 else 0
    for k in range(-n + 1, n):
        if I.path.decide(t == k):
            return k
    raise OutOfSubset('slice bound split fell through')


def seq_slice(I, v, sl):
    if sl.step is not None and sl.step != 1:
        if isinstance(sl.step, int) and not isinstance(v, SSeq):
            if any(is_sym(x) for x in (sl.lo, sl.hi) if x is not None):
                raise OutOfSubset('stepped slice with symbolic bounds')
            if isinstance(v, str):
                return v[sl.lo:sl.hi:sl.step]
            return mk_seq(seq_kind(v), seq_items(v)[sl.lo:sl.hi:sl.step])
        raise OutOfSubset('slice step')
    if isinstance(v, SView) and v.pre:
        np_ = len(v.pre)
        lo, hi = sl.lo, sl.hi
        if lo is None:
            lo = 0
        if isinstance(lo, int) and lo >= 0 and isinstance(hi, int) and 0 <= hi <= np_:
            return mk_seq(v.kind, v.pre[lo:hi])
        if isinstance(lo, int) and 0 <= lo <= np_:
            rest = view_like(v, v.off, v.ln, v.kind, None)
            if hi is None:
                tail = rest
            else:
                h = zterm(hi)
                if not I.path.must(h >= np_):
                    raise OutOfSubset('slice of a prefixed view with an upper bound that may fall inside the prefix')
                tail = seq_slice(I, rest, SliceVal(None, mk_int(h - np_), None))
            return view_like(tail, tail.off, tail.ln, v.kind, v.pre[lo:])
        if isinstance(lo, int) and lo > np_ or (not isinstance(lo, int) and I.path.must(zterm(lo) >= np_)):
            rest = view_like(v, v.off, v.ln, v.kind, None)
            return seq_slice(I, rest, SliceVal(mk_int(zterm(lo) - np_), None if hi is None else mk_int(zterm(hi) - np_), None))
        raise OutOfSubset('slice of a prefixed view')
    if isinstance(v, SView):
        n = zi(v.ln)

        def nbv(b, default):
            if b is None:
                return default
            t = zterm(b)
            return z3.If(t < 0, z3.If(t + n < 0, 0, t + n), z3.If(t > n, n, t))
        lo = nbv(sl.lo, z3.IntVal(0))
        hi = nbv(sl.hi, n)
        return view_like(v, z3.simplify(zi(v.off) + lo), z3.simplify(z3.If(hi > lo, hi - lo, 0)))
    if isinstance(v, SSeq):
        n = z3.Length(v.t)

        def nb(b, default):
            if b is None:
                return default
            t = zterm(b)
            t = z3.If(t < 0, z3.If(t + n < 0, 0, t + n), z3.If(t > n, n, t))
            return t
        lo = nb(sl.lo, z3.IntVal(0))
        hi = nb(sl.hi, n)
        ln = z3.If(hi > lo, hi - lo, 0)
        return SSeq(z3.simplify(z3.SubSeq(v.t, lo, ln)), v.kind)
    if isinstance(v, str):
        n = len(v)
        lo = concretize_bound(I, sl.lo, n)
        hi = concretize_bound(I, sl.hi, n)
        return v[lo:hi]
    items = seq_items(v)
    n = len(items)
    lo = concretize_bound(I, sl.lo, n)
    hi = concretize_bound(I, sl.hi, n)
    lo, hi = clamp_slice(I, lo, hi, n)
    return mk_seq(seq_kind(v), items[lo:hi])


def byte_check(I, x, what='byte'):
    """Value stored into a bytearray/bytes: must be an int in range(256)."""
    if isinstance(x, bool):
        return int(x)
    if not is_intlike(x):
        I.raise_py('TypeError', "'%s' object cannot be interpreted as an integer" % I.type_name(x))
    if isinstance(x, int):
        if not 0 <= x <= 255:
            I.raise_py('ValueError', 'byte must be in range(0, 256)')
        return x
    t = zterm(x)
    if not I.path.decide(z3.And(t >= 0, t <= 255)):
        I.raise_py('ValueError', 'byte must be in range(0, 256)')
    return x
