"""Runs the contracts of one property: symbolic exploration, obligations, native concordance /
replay, verdict and evidence."""
import json
import multiprocessing as mp
import os
import subprocess
import sys
import time
import traceback

from . import api

VERIF_ROOT = os.path.dirname(os.path.dirname(os.path.abspath(__file__)))
REPO_ROOT = os.environ.get('VERIF_REPO', '/repo')
NATIVE_PY = os.environ.get('VERIF_NATIVE_PY', '/venv/bin/python')

EXTRACTION_DROPS = ('docstrings; type annotations; calls on logger/logging/warnings/traceback receivers, print and '
                    'sys.stdout/sys.stderr writes are no-ops (their argument expressions are evaluated, without forking, for the '
                    'exceptions they can raise; arguments the engine cannot evaluate are assumed not to raise)')


class Sink:
    def __init__(self):
        self.records = []
        self.covers = {}

    def add(self, rec):
        self.records.append(rec)

    def cover(self, name, ok):
        self.covers[name] = self.covers.get(name, False) or ok


def run_contract(args):
    """Worker: explore all paths of one contract.  Returns a JSON-able dict."""
    prop, cname, cfg = args
    import z3
    from .core import explore, OutOfSubset, EngineError, Budget, PathAbort, PyRaise
    from .symctx import SymCtx
    t0 = time.time()
    contracts = {c.name: c for c in api.load(prop)}
    c = contracts[cname]
    sink = Sink()
    modules = {}
    witnesses = []
    partial = []
    meta = {'assumptions': set(), 'dropped': set(), 'interpreted': set(), 'n_paths': 0, 'paths_without_call': 0}
    err = None
    counter = {'n': 0}

    def run(path):
        pid = counter['n']
        counter['n'] += 1
        ctx = SymCtx(c, path, REPO_ROOT, cfg, modules, sink, pid)
        try:
            c.fn(ctx)
        except (OutOfSubset, Budget):
            # the engine gives up on this path: keep an input that reaches this point, it is executed natively
            try:
                w = ctx.witness()
                if w is not None:
                    partial.append({'path': pid, 'values': w})
            except Exception:
                pass
            raise
        finally:
            meta['assumptions'].update(ctx.I.assumptions)
            meta['dropped'].update(ctx.I.dropped)
            meta['interpreted'].update(ctx.I.interpreted)
        if not ctx.called:
            meta['paths_without_call'] += 1
        meta['n_paths'] += 1
        if cfg.get('witnesses', True):
            w = ctx.witness()
            if w is not None:
                witnesses.append({'path': pid, 'values': w})
            else:
                meta.setdefault('paths_no_witness', 0)
                meta['paths_no_witness'] += 1

    stats = {}
    try:
        ccfg = dict(cfg)
        ccfg.update({k: v for k, v in c.opts.items() if k in ('max_paths', 'max_decisions', 'branch_timeout_ms', 'ob_timeout_ms', 'max_wall_s')})
        stats = explore(run, ccfg)
    except (OutOfSubset, Budget) as e:
        err = {'kind': 'undecided', 'text': '%s: %s' % (type(e).__name__, e)}
    except EngineError as e:
        err = {'kind': 'engine', 'text': 'EngineError: %s' % e}
    except PyRaise as e:
        err = {'kind': 'engine', 'text': 'contract raised interpreted exception outside c.call: %r' % (e.exc,)}
    except Exception as e:
        err = {'kind': 'engine', 'text': 'crash %s: %s\n%s' % (type(e).__name__, e, traceback.format_exc()[-3000:])}
    return {'contract': cname, 'funcs': c.funcs, 'clause': c.clause, 'records': [r.as_dict() for r in sink.records],
            'covers': sink.covers, 'witnesses': witnesses, 'partial_witnesses': partial, 'stats': stats, 'error': err,
            'assumptions': sorted(meta['assumptions']), 'dropped': sorted(meta['dropped']), 'interpreted': sorted(meta['interpreted']), 'n_paths': meta['n_paths'],
            'paths_no_witness': meta.get('paths_no_witness', 0), 'wall_s': time.time() - t0,
            'float_mode': c.opts.get('float_mode', 'FP'), 'bounded': c.opts.get('bounded')}


def native_run(prop, items, timeout=900, stop_on_fail=False, call_timeout_s=10):
    job = {'repo_root': REPO_ROOT, 'verif_root': VERIF_ROOT, 'prop': prop, 'items': items, 'stop_on_fail': stop_on_fail,
           'call_timeout_s': call_timeout_s}
    env = dict(os.environ)
    env['PYTHONPATH'] = REPO_ROOT + os.pathsep + VERIF_ROOT
    p = subprocess.run([NATIVE_PY, '-m', 'pyvc.nativectx'], input=json.dumps(job), capture_output=True, text=True,
                       cwd=REPO_ROOT, env=env, timeout=timeout)
    if p.returncode != 0:
        raise RuntimeError('native driver failed: %s' % p.stderr[-3000:])
    rep = json.loads(p.stdout)
    if not os.path.abspath(rep['cflib']).startswith(os.path.abspath(REPO_ROOT)):
        raise RuntimeError('native driver imported cflib from %s, not from %s' % (rep['cflib'], REPO_ROOT))
    return rep['runs']


def load_known():
    p = os.path.join(VERIF_ROOT, 'known_findings.json')
    if os.path.exists(p):
        return json.load(open(p)).get('known', [])
    return []


def match_known(known, prop, contract, ob, values):
    for k in known:
        import fnmatch
        if k['property'] != prop or not fnmatch.fnmatchcase(contract, k['contract']) or not fnmatch.fnmatchcase(ob, k['obligation']):
            continue
        cond = k.get('when')
        if cond:
            try:
                if not eval(cond, {}, dict(values)):
                    continue
            except Exception:
                continue
        return k
    return None


def check_property(prop, tier='quick', seed=0, only=None, verbose=False):
    t0 = time.time()
    cfg = {'tier': tier, 'seed': seed, 'branch_timeout_ms': 5000, 'ob_timeout_ms': 60000 if tier == 'quick' else 180000,
           'cvc5_timeout_s': 60 if tier == 'quick' else 180, 'max_paths': 4000 if tier == 'quick' else 20000,
           'max_wall_s': int(os.environ.get('VERIF_CONTRACT_WALL_S', '600' if tier == 'quick' else '3000'))}
    contracts = api.load(prop)
    if only:
        contracts = [c for c in contracts if c.name in only]
    # quick tier: everything except the contracts marked thorough_only - unless a listed known finding is shown by that contract
    # (every listed finding is reported by both tiers)
    import fnmatch as _fn
    _listed = [k['contract'] for k in load_known() if k['property'] == prop]
    contracts = [c for c in contracts if tier == 'thorough' or not c.opts.get('thorough_only') or
                 any(_fn.fnmatchcase(c.name, pat) for pat in _listed)]
    if not contracts:
        print('ENGINE-ERROR property=%s no contracts' % prop)
        return 3
    # contracts marked bounded_only=True are never given to the verifier: the function is outside its reach (external numerical
    # solver ...); they are a bounded native check with a stated bound, reported under `bounded_checks`, never counted as proved
    bounded_only = [c for c in contracts if c.opts.get('bounded_only')]
    contracts = [c for c in contracts if not c.opts.get('bounded_only')]
    jobs = [(prop, c.name, cfg) for c in contracts]
    nproc = min(int(os.environ.get('VERIF_JOBS', '16')), len(jobs))
    if not jobs:
        results = []
    elif nproc > 1:
        with mp.get_context('fork').Pool(nproc) as pool:
            results = pool.map(run_contract, jobs, chunksize=1)
    else:
        results = [run_contract(j) for j in jobs]

    # ---- native: concordance witnesses + counterexample replays
    items = []
    for r in results:
        for w in r['witnesses']:
            items.append({'contract': r['contract'], 'values': w['values'], 'tag': 'path:%d' % w['path']})
        for i, rec in enumerate(r['records']):
            if rec['status'] == 'failed':
                items.append({'contract': r['contract'], 'values': rec['values'], 'tag': 'cex:%d' % i})
    native = {}
    native_err = None
    if items:
        # native runs of different contracts are independent: spread the contracts over a few driver processes (a change that
        # makes calls hang then costs one time limit per contract in parallel, not in sequence)
        buckets = {}
        order = []
        for it in items:
            if it['contract'] not in buckets:
                order.append(it['contract'])
                buckets[it['contract']] = []
            buckets[it['contract']].append(it)
        nb = max(1, min(8, len(order)))
        parts = [[] for _ in range(nb)]
        for i, cn in enumerate(order):
            parts[i % nb].extend(buckets[cn])

        def _native(part):
            return part, native_run(prop, part)
        try:
            from concurrent.futures import ThreadPoolExecutor
            with ThreadPoolExecutor(max_workers=nb) as ex:
                for part, runs in ex.map(_native, [p for p in parts if p]):
                    for it, run in zip(part, runs):
                        native[(it['contract'], it['tag'])] = run
        except Exception as e:
            native_err = str(e)

    # ---- bounded stand-in: contracts with undecided obligations are additionally sampled natively (boundary + seeded random
    # inputs on the REAL code, all post-conditions evaluated in CPython).  Never counted as proved.
    standin = {}
    n_samples = 150 if tier == 'quick' else 1000
    need = [r for r in results if (r['error'] and r['error']['kind'] == 'undecided') or
            any(x['status'] == 'undecided' or (x['status'] == 'failed' and x['cls'] == 'A') for x in r['records'])]
    if need and not native_err:
        sitems = [{'contract': r['contract'], 'values': w['values'], 'tag': 'partial:%d' % w['path'], 'sample_seed': seed * 100003 + 7}
                  for r in need for w in r.get('partial_witnesses', [])]
        sitems += [{'contract': r['contract'], 'values': {}, 'tag': 'sample:%d' % i, 'sample_seed': seed * 100003 + i}
                   for r in need for i in range(n_samples)]
        # one native process per contract (a change that makes calls hang costs call_timeout_s per sample until the first failure)
        groups = {}
        for it in sitems:
            groups.setdefault(it['contract'], []).append(it)

        def _standin(its):
            return its, native_run(prop, its, timeout=1800, stop_on_fail=True, call_timeout_s=5)
        try:
            from concurrent.futures import ThreadPoolExecutor
            with ThreadPoolExecutor(max_workers=min(12, len(groups))) as ex:
                for its, sruns in ex.map(_standin, list(groups.values())):
                    for it, run in zip(its, sruns):
                        standin.setdefault(it['contract'], []).append(run)
        except Exception as e:
            native_err = 'stand-in: ' + str(e)

    bo_runs = {}
    if bounded_only and not native_err:
        def _bo(c):
            n = (c.opts.get('samples') or {}).get(tier) or n_samples
            its = [{'contract': c.name, 'values': {}, 'tag': 'sample:%d' % i, 'sample_seed': seed * 100003 + i} for i in range(n)]
            return c.name, native_run(prop, its, timeout=3000, stop_on_fail=True, call_timeout_s=20)
        try:
            from concurrent.futures import ThreadPoolExecutor
            with ThreadPoolExecutor(max_workers=min(8, len(bounded_only))) as ex:
                for cname, runs in ex.map(_bo, bounded_only):
                    bo_runs[cname] = runs
        except Exception as e:
            native_err = 'bounded-only: ' + str(e)

    known = load_known()
    exit_code = 0
    lines = []
    violations = 0
    os.makedirs(os.path.join(VERIF_ROOT, 'replays', prop), exist_ok=True)
    n_obl = n_dis = 0
    by_backend = {}
    solver_time = 0.0
    samples = []
    conc = 0
    conc_bad = []
    undecided = []
    engine_errors = []
    known_hits = []
    reported = {}

    if native_err:
        engine_errors.append('native driver: ' + native_err)

    for r in results:
        cname = r['contract']
        if r['error']:
            (engine_errors if r['error']['kind'] == 'engine' else undecided).append('%s: %s' % (cname, r['error']['text']))
        if not r['records'] and not r['error']:
            engine_errors.append('%s: zero obligations generated' % cname)
        for name, ok in r['covers'].items():
            if not ok:
                engine_errors.append('%s: cover %s unreachable (vacuous contract?)' % (cname, name))
        failed_by_path = {}
        for i, rec in enumerate(r['records']):
            n_obl += 1
            solver_time += rec['time']
            if rec['status'] == 'discharged':
                n_dis += 1
                by_backend[rec['backend']] = by_backend.get(rec['backend'], 0) + 1
                if len(samples) < 12 and rec['backend'] != 'syntactic':
                    samples.append({'obligation': '%s/%s' % (cname, rec['name']), 'class': rec['cls'], 'path': rec['path_id'],
                                    'backend': rec['backend'], 'time_s': round(rec['time'], 4), 'expr': rec['expr'][:200]})
            elif rec['status'] == 'undecided':
                undecided.append('%s/%s path %d: solver unknown (%s)' % (cname, rec['name'], rec['path_id'], rec['detail']))
            else:
                failed_by_path.setdefault(rec['path_id'], []).append(rec['name'])
                run = native.get((cname, 'cex:%d' % i))
                obid = '%s/%s' % (cname, rec['name'])
                replay_path = os.path.join(VERIF_ROOT, 'replays', prop, '%s.%s.p%d.json' % (cname, rec['name'].replace('/', '_'), rec['path_id']))
                payload = {'property': prop, 'contract': cname, 'obligation': rec['name'], 'class': rec['cls'],
                           'expr': rec['expr'], 'funcs': r['funcs'], 'values': rec['values'], 'native': run,
                           'solver': 'z3 model of path condition and negated obligation',
                           'replay_cmd': './vcheck %s --replay %s' % (prop, replay_path)}
                confirmed = None
                if run is not None:
                    ens = {e[0]: e for e in run['ensures']}
                    if rec['name'] in ens:
                        confirmed = ens[rec['name']][2] is False
                kf = match_known(known, prop, cname, rec['name'], rec['values'])
                if rec['cls'] == 'A' and rec['name'] not in ([e[0] for e in run['ensures']] if run else []):
                    # auxiliary obligation (invariant etc.): no native counterpart
                    undecided.append('%s: auxiliary obligation failed (no concrete failing input): %s' % (obid, rec['expr'][:120]))
                    json.dump(payload, open(replay_path, 'w'), indent=1, default=str)
                    continue
                if confirmed is True:
                    if kf:
                        known_hits.append((kf, obid))
                        continue
                    violations += 1
                    if obid in reported:
                        reported[obid] += 1
                        continue
                    reported[obid] = 1
                    json.dump(payload, open(replay_path, 'w'), indent=1, default=str)
                    lines.append('VIOLATION property=%s replay=%s' % (prop, replay_path))
                    print('  failed obligation %s: %s\n  input: %s\n  native: raised=%s result=%s' % (
                        obid, rec['expr'][:300], json.dumps(rec['values'])[:600], run.get('raised'), run.get('result')))
                elif confirmed is False and str(rec.get('detail') or '').startswith('nondet-env'):
                    # the failing path needs an environment choice (e.g. the hash order of a set) that the native run cannot
                    # be given: the obligation is refuted, but there is no replayable input
                    payload['note'] = rec['detail']
                    json.dump(payload, open(replay_path, 'w'), indent=1, default=str)
                    if kf:
                        known_hits.append((kf, obid))
                        continue
                    violations += 1
                    if obid in reported:
                        reported[obid] += 1
                        continue
                    reported[obid] = 1
                    lines.append('VIOLATION property=%s replay=%s no-failing-input-found' % (prop, replay_path))
                elif confirmed is False:
                    engine_errors.append('ENGINE-MISMATCH %s: solver model does not fail natively (values %s)' % (
                        obid, json.dumps(rec['values'])[:400]))
                    json.dump(payload, open(replay_path, 'w'), indent=1, default=str)
                else:
                    why = run.get('error') if run else 'no native run'
                    if run is not None and run.get('error', '') and 'precondition-not-met' in run['error']:
                        engine_errors.append('ENGINE-MISMATCH %s: model violates the precondition natively: %s' % (obid, why))
                    else:
                        payload['note'] = 'replay could not be executed natively: %s' % why
                        json.dump(payload, open(replay_path, 'w'), indent=1, default=str)
                        if kf:
                            known_hits.append((kf, obid))
                            continue
                        lines.append('VIOLATION property=%s replay=%s no-failing-input-found' % (prop, replay_path))
                        violations += 1
        # concordance of fully proved paths
        for w in r['witnesses']:
            run = native.get((cname, 'path:%d' % w['path']))
            if run is None or (run.get('error') or '').startswith('skipped:'):
                continue
            conc += 1
            if w['path'] in failed_by_path:
                continue
            if run.get('error'):
                conc_bad.append('%s path %d: %s (values %s)' % (cname, w['path'], run['error'][:300], json.dumps(w['values'])[:300]))
                continue
            if r['float_mode'] == 'R':
                continue
            for e in run['ensures']:
                if e[2] is False:
                    conc_bad.append('%s path %d: ensure %s proved but false natively %s (values %s; raised=%s result=%s)' % (
                        cname, w['path'], e[0], e[3], json.dumps(w['values'])[:400], run.get('raised'), run.get('result')))
    for msg in conc_bad:
        engine_errors.append('ENGINE-MISMATCH ' + msg)

    standin_info = []
    for cname, runs in standin.items():
        ran = [x for x in runs if not (x.get('error') or '').startswith('precondition-not-met')]
        bad = None
        for x in ran:
            if x.get('error'):
                continue
            fails = [e for e in x['ensures'] if e[2] is False]
            if fails:
                bad = (x, fails[0])
                break
        standin_info.append({'contract': cname, 'bound': '%d seeded boundary/random inputs executed natively (bounded stand-in for undecided obligations)' % len(ran)})
        if bad is not None:
            x, e = bad
            obid = '%s/%s' % (cname, e[0])
            kf = match_known(known, prop, cname, e[0], x.get('values', {}))
            if kf:
                known_hits.append((kf, obid + ' [sampled]'))
                continue
            replay_path = os.path.join(VERIF_ROOT, 'replays', prop, '%s.%s.sample.json' % (cname, e[0].replace('/', '_')))
            json.dump({'property': prop, 'contract': cname, 'obligation': e[0], 'class': e[1], 'values': x.get('values'), 'native': x,
                       'found_by': 'bounded native stand-in (the symbolic obligation was undecided)',
                       'replay_cmd': './vcheck %s --replay %s' % (prop, replay_path)}, open(replay_path, 'w'), indent=1, default=str)
            lines.append('VIOLATION property=%s replay=%s' % (prop, replay_path))
            violations += 1
            print('  bounded stand-in found a failing input for %s: %s (raised=%s result=%s)' % (obid, json.dumps(x.get('values'))[:400], x.get('raised'), x.get('result')))

    bounded_checks = []
    for c in bounded_only:
        runs = bo_runs.get(c.name, [])
        ran = [x for x in runs if not (x.get('error') or '').startswith('precondition-not-met')]
        crashed = [x for x in ran if x.get('error')]
        n_ens = sum(len(x['ensures']) for x in ran)
        bounded_checks.append({'contract': c.name, 'clause': c.clause, 'functions': c.funcs, 'bound': c.opts.get('bounded'),
                               'samples_generated': len(runs), 'samples_meeting_precondition': len(ran),
                               'postconditions_evaluated': n_ens, 'counted_as_proved': False})
        if crashed:
            engine_errors.append('%s (bounded only): %s' % (c.name, crashed[0]['error'][:600]))
            continue
        if not ran or not n_ens:
            engine_errors.append('%s (bounded only): no sample met the pre-condition / no post-condition evaluated' % c.name)
            continue
        for x in ran:
            fails = [e for e in x['ensures'] if e[2] is False]
            if not fails:
                continue
            e = fails[0]
            obid = '%s/%s' % (c.name, e[0])
            kf = match_known(known, prop, c.name, e[0], x.get('values', {}))
            if kf:
                known_hits.append((kf, obid + ' [sampled]'))
                continue
            replay_path = os.path.join(VERIF_ROOT, 'replays', prop, '%s.%s.sample.json' % (c.name, e[0].replace('/', '_')))
            json.dump({'property': prop, 'contract': c.name, 'obligation': e[0], 'class': e[1], 'values': x.get('values'), 'native': x,
                       'found_by': 'bounded native check (function outside the verifier\'s reach; not a proof obligation)',
                       'replay_cmd': './vcheck %s --replay %s' % (prop, replay_path)}, open(replay_path, 'w'), indent=1, default=str)
            lines.append('VIOLATION property=%s replay=%s' % (prop, replay_path))
            violations += 1
            print('  bounded check found a failing input for %s: %s %s' % (obid, json.dumps(x.get('values'))[:400], e[3]))
            break

    seen_kf = set()
    for kf, obid in known_hits:
        if id(kf) in seen_kf:
            continue
        seen_kf.add(id(kf))
        n = sum(1 for k2, _ in known_hits if k2 is kf)
        print('KNOWN-FINDING: property=%s %s [%s, %d path(s)]' % (prop, kf['what'], obid, n))
    listed = [k for k in known if k['property'] == prop]
    hit_ids = set(id(k) for k, _ in known_hits)
    for k in listed:
        if id(k) not in hit_ids and not only:
            # a listed finding that no longer reproduces is reported, never silently dropped
            print('NOTE: known finding no longer reproduces: property=%s %s' % (prop, k['what']))

    if violations:
        exit_code = 1
    elif engine_errors:
        exit_code = 3
    elif undecided:
        exit_code = 2
    for l in lines:
        print(l)
    for obid, n in reported.items():
        if n > 1:
            print('  (%s fails on %d paths; first one reported)' % (obid, n))
    for m in engine_errors:
        print('ENGINE-ERROR property=%s %s' % (prop, m))
    for m in undecided:
        print('UNDECIDED property=%s %s' % (prop, m))

    funcs = sorted(set(f for r in results for f in r['funcs']))
    assumptions = sorted(set(a for r in results for a in r['assumptions']))
    bounded = [{'contract': r['contract'], 'bound': r['bounded']} for r in results if r['bounded']] + standin_info
    cover = {
        'obligations': n_obl - len([1 for _, o in known_hits if not o.endswith(' [sampled]')]), 'discharged': n_dis,
        'obligations_failing_as_listed_known_findings': len([1 for _, o in known_hits if not o.endswith(' [sampled]')]),
        'checker_cmd': './vcheck %s %s' % (prop, tier),
        'trusted_base': ['pyvc AST interpreter / VC generator (this directory)', 'z3 5.1.0 (python3-vt)', '/usr/bin/cvc5 1.0.3 (fallback)',
                         'CPython 3.12 semantics of the modelled constructs (sampled by per-path concordance)',
                         'contracts/%s.py (specification incl. peer/firmware layouts stated there)' % prop],
        'samples': samples or [{'obligation': r['contract'] + '/' + (r['records'][0]['name'] if r['records'] else '-'),
                                'backend': 'syntactic'} for r in results[:3]],
        'functions_under_contract': funcs,
        'functions_interpreted': sorted(set(f for r in results for f in r.get('interpreted', []) if f.startswith(('cflib', 'examples')))),
        'contracts': [{'name': r['contract'], 'clause': r['clause'], 'paths': r['n_paths'],
                       'obligations': len(r['records']), 'wall_s': round(r['wall_s'], 2), 'float_mode': r['float_mode']} for r in results],
        'by_backend': by_backend, 'solver_time_s': round(solver_time, 3),
        'paths_explored': sum(r['n_paths'] for r in results),
        'extraction_drops': EXTRACTION_DROPS, 'dropped_calls_seen': sorted(set(d for r in results for d in r['dropped'])),
        'concordance_samples': conc, 'traces_validated_against_impl': conc,
        'bounded': bounded + [{'contract': b['contract'], 'bound': 'BOUNDED ONLY (not verified): %s; %d sampled inputs' % (b['bound'], b['samples_meeting_precondition'])}
                              for b in bounded_checks],
        'bounded_checks': bounded_checks, 'known_findings_matched': [k['what'] for k, _ in known_hits],
        'undecided': undecided, 'engine_errors': engine_errors,
        'explanation': 'contract-based deductive verification: symbolic execution of the real AST per function, one '
                       'obligation per (path, post-condition); every proved path is also executed natively on a solver '
                       'witness and all post-conditions re-evaluated in CPython',
    }
    ev = {'property_id': prop, 'tier': tier, 'seed': seed, 'level': 'proof', 'coverage': cover,
          'assumptions': assumptions + ['float mode R = machine arithmetic treated as mathematical (contracts marked R)'
                                        if any(r['float_mode'] == 'R' for r in results) else 'no real-arithmetic abstraction used'],
          'wall_s': round(time.time() - t0, 2), 'violations': violations}
    if not only and not os.environ.get('VERIF_NO_EVIDENCE'):
        os.makedirs(os.path.join(VERIF_ROOT, 'evidence'), exist_ok=True)
        json.dump(ev, open(os.path.join(VERIF_ROOT, 'evidence', prop + '.json'), 'w'), indent=1)
    print('%s tier=%s contracts=%d paths=%d obligations=%d discharged=%d backends=%s concordance=%d wall=%.1fs exit=%d' % (
        prop, tier, len(results), cover['paths_explored'], n_obl, n_dis, by_backend, conc, time.time() - t0, exit_code))
    if verbose:
        for r in results:
            print('  %-40s paths=%-4d obl=%-4d %.1fs %s' % (r['contract'], r['n_paths'], len(r['records']), r['wall_s'], (str(r['error'])[:160] if r['error'] else '')))
    return exit_code


def replay(prop, path):
    payload = json.load(open(path))
    runs = native_run(prop, [{'contract': payload['contract'], 'values': payload['values'], 'tag': 'replay'}])
    run = runs[0]
    print(json.dumps(run, indent=1)[:4000])
    ens = {e[0]: e for e in run['ensures']}
    e = ens.get(payload['obligation'])
    if e is not None and e[2] is False:
        print('VIOLATION property=%s replay=%s' % (prop, path))
        return 1
    return 0
