"""Models of urllib.parse.urlparse / parse_qs, re.search / re.match and a non-forking
binascii.unhexlify for strings with symbolic characters (added for C20; hooked in at the end of
models2.py).

All of them are *partial*: whatever is not covered by a rule raises OutOfSubset (the check is then
undecided, never green).  Concrete strings go to the host implementation (python3-vt's stdlib);
the native concordance run re-executes every proved path under the repository's own interpreter.

urlparse(PStr)  - CPython 3.12 urlsplit for `scheme://...` URLs whose scheme part is concrete, is not
                  one of the schemes with ;parameters, and whose characters are all provably printable
                  ASCII without blanks (33..126): no C0/blank stripping, no tab/CR/LF removal, no NFKC
                  netloc check arises.  Delimiters (/ ? # [ ]) at symbolic positions fork.  A host in
                  brackets is out of subset.
parse_qs(PStr)  - separator '&', first '=' splits name and value, blank values dropped (the defaults);
                  no symbolic character may be one of & = + % and no concrete + or % may occur
                  (so no unquoting arises).
re.search/match - concrete subject: host `re`.  Symbolic subject: only patterns `^literal...`; the
                  answer is decided by the mandatory literal prefix: mismatch -> None (forks), match
                  and nothing but the literal in the pattern -> a match object; anything else is out
                  of subset.
"""
import z3

from .values import *
from .core import OutOfSubset, PyRaise
from . import ops
from . import models as M
from .ops import zterm, mk_int, conj, py_eq, binop


def _bounds(I, t):
    """(lo, hi) known for the integer constant t from literal facts `t >= k` / `t <= k` / `t == k` of the path
    condition - no solver call.  Only an accelerator: a missing bound is None and the caller asks the solver."""
    p = I.path
    st = getattr(p, '_uri_bounds', None)
    if st is None:
        st = p._uri_bounds = {'n': 0, 'lo': {}, 'hi': {}}
    pc = p.pc
    while st['n'] < len(pc):
        a = pc[st['n']]
        st['n'] += 1
        for lit in (a.children() if z3.is_and(a) else [a]):
            if not z3.is_app(lit) or lit.num_args() != 2:
                continue
            x, kk = lit.arg(0), lit.arg(1)
            if not (z3.is_const(x) and z3.is_int_value(kk) and x.decl().kind() == z3.Z3_OP_UNINTERPRETED):
                continue
            kind, i, v = lit.decl().kind(), x.get_id(), kk.as_long()
            if kind in (z3.Z3_OP_GE, z3.Z3_OP_EQ):
                st['lo'][i] = max(st['lo'].get(i, v), v)
            if kind in (z3.Z3_OP_LE, z3.Z3_OP_EQ):
                st['hi'][i] = min(st['hi'].get(i, v), v)
    i = t.get_id()
    return st['lo'].get(i), st['hi'].get(i)


def _char_in(I, c, codes):
    """c in codes (concrete answer; forks when both are possible)"""
    if isinstance(c, int):
        return c in codes
    t = zterm(c)
    lo, hi = _bounds(I, t)
    if lo is not None and hi is not None:
        if all(k < lo or k > hi for k in codes):
            return False
        if lo == hi:
            return lo in codes
    return I.path.decide(z3.Or(*[t == k for k in codes]) if len(codes) > 1 else t == codes[0])


def _require_plain_ascii(I, chars, what):
    for c in chars:
        if isinstance(c, int):
            ok = 33 <= c <= 126
        else:
            t = zterm(c)
            lo, hi = _bounds(I, t)
            ok = (lo is not None and hi is not None and lo >= 33 and hi <= 126) or I.path.must(z3.And(t >= 33, t <= 126))
        if not ok:
            raise OutOfSubset('%s: character outside printable non-blank ASCII (33..126) in a symbolic string' % what)


def _mkstr(chars):
    return ops.mk_seq('str', list(chars))


_USES_PARAMS = ('', 'ftp', 'hdl', 'prospero', 'http', 'imap', 'https', 'shttp', 'rtsp', 'rtspu', 'sip', 'sips', 'mms', 'sftp', 'tel')
_SCHEME_CHARS = 'abcdefghijklmnopqrstuvwxyzABCDEFGHIJKLMNOPQRSTUVWXYZ0123456789+-.'


def _url_result(attrs):
    return Ext('urlparse-result', attrs=attrs, auto=False)


def _urlparse(I, a, k):
    if len(a) != 1 or k:
        raise OutOfSubset('urlparse with scheme= / allow_fragments= arguments')
    url = a[0]
    if isinstance(url, str):
        from urllib.parse import urlparse
        try:
            r = urlparse(url)
        except ValueError as e:
            I.raise_py('ValueError', str(e))
        attrs = {'scheme': r.scheme, 'netloc': r.netloc, 'path': r.path, 'params': r.params, 'query': r.query,
                 'fragment': r.fragment}
        for nm in ('hostname', 'port', 'username', 'password'):
            try:
                attrs[nm] = getattr(r, nm)
            except ValueError:
                pass        # the property raises natively; not modelled -> OutOfSubset when the code reads it
        return _url_result(attrs)
    if not isinstance(url, PStr):
        raise OutOfSubset('urlparse(%r)' % (url,))
    chars = list(url.chars)
    _require_plain_ascii(I, chars, 'urlparse')
    i = 0
    while i < len(chars) and isinstance(chars[i], int) and chars[i] != 58:
        i += 1
    if not (0 < i < len(chars) and isinstance(chars[i], int)):
        raise OutOfSubset('urlparse: the scheme part of a symbolic URL must be concrete')
    scheme = ''.join(chr(c) for c in chars[:i])
    if not (scheme[0].isalpha() and all(ch in _SCHEME_CHARS for ch in scheme)):
        raise OutOfSubset('urlparse: %r is not a scheme' % scheme)
    scheme = scheme.lower()
    if scheme in _USES_PARAMS:
        raise OutOfSubset('urlparse: scheme %s splits ;parameters' % scheme)
    rest = chars[i + 1:]
    netloc = []
    if len(rest) >= 2 and _char_in(I, rest[0], (47,)) and _char_in(I, rest[1], (47,)):
        j = 2
        while j < len(rest) and not _char_in(I, rest[j], (47, 63, 35)):
            j += 1
        netloc = rest[2:j]
        rest = rest[j:]
        for c in netloc:
            if _char_in(I, c, (91, 93)):
                raise OutOfSubset('urlparse: bracketed host in a symbolic URL')
    fragment = []
    for j, c in enumerate(rest):
        if _char_in(I, c, (35,)):
            rest, fragment = rest[:j], rest[j + 1:]
            break
    query = []
    for j, c in enumerate(rest):
        if _char_in(I, c, (63,)):
            rest, query = rest[:j], rest[j + 1:]
            break
    attrs = {'scheme': scheme, 'netloc': _mkstr(netloc), 'path': _mkstr(rest), 'params': '', 'query': _mkstr(query),
             'fragment': _mkstr(fragment)}
    if all(isinstance(c, int) for c in netloc):
        from urllib.parse import urlparse
        r = urlparse(scheme + '://' + attrs['netloc'])
        for nm in ('hostname', 'port', 'username', 'password'):
            try:
                attrs[nm] = getattr(r, nm)
            except ValueError:
                pass
    return _url_result(attrs)


def _parse_qs(I, a, k):
    if len(a) != 1 or k:
        raise OutOfSubset('parse_qs with optional arguments')
    qs = a[0]
    d = PDict()
    if isinstance(qs, str):
        from urllib.parse import parse_qs
        try:
            r = parse_qs(qs)
        except ValueError as e:
            I.raise_py('ValueError', str(e))
        for kk, vv in r.items():
            d.keys.append(kk)
            d.vals.append(PList(list(vv)))
        return d
    if not isinstance(qs, PStr):
        raise OutOfSubset('parse_qs(%r)' % (qs,))
    chars = list(qs.chars)
    _require_plain_ascii(I, chars, 'parse_qs')
    for c in chars:
        if isinstance(c, int):
            if c in (43, 37):
                raise OutOfSubset('parse_qs: + or % (unquoting) in a symbolic query')
        else:
            t = zterm(c)
            lo, hi = _bounds(I, t)
            if lo is not None and hi is not None and all(kk < lo or kk > hi for kk in (38, 61, 43, 37)):
                continue
            if not I.path.must(z3.And(t != 38, t != 61, t != 43, t != 37)):
                raise OutOfSubset('parse_qs: a symbolic character may be one of & = + %')
    pieces = [[]]
    for c in chars:
        if isinstance(c, int) and c == 38:
            pieces.append([])
        else:
            pieces[-1].append(c)
    for p in pieces:
        if not p or 61 not in [c for c in p if isinstance(c, int)]:
            continue
        e = [i for i, c in enumerate(p) if isinstance(c, int) and c == 61][0]
        name, value = p[:e], p[e + 1:]
        if not value:
            continue
        name, value = _mkstr(name), _mkstr(value)
        i = I.dict_find(d, name)
        if i is None:
            d.keys.append(name)
            d.vals.append(PList([value]))
        else:
            d.vals[i].items.append(value)
    return d


_META = '.^$*+?{}[]\\|()'


def _match_obj(m):
    def group(I, a, k):
        r = m.group(*a)
        return r
    def groups(I, a, k):
        return tuple(m.groups())
    return Ext('re.Match', attrs={'group': Builtin('Match.group', group), 'groups': Builtin('Match.groups', groups)}, auto=False)


def _re_find(which):
    def f(I, a, k):
        if len(a) != 2 or k:
            raise OutOfSubset('re.%s with flags' % which)
        pat, s = a
        if not isinstance(pat, str):
            raise OutOfSubset('re.%s with a non-constant pattern' % which)
        if isinstance(s, str):
            import re
            m = getattr(re, which)(pat, s)
            return None if m is None else _match_obj(m)
        if not isinstance(s, PStr):
            raise OutOfSubset('re.%s on %r' % (which, s))
        body = pat
        if body.startswith('^'):
            body = body[1:]
        elif which != 'match':
            raise OutOfSubset('re.search of an unanchored pattern on a symbolic string')
        n = 0
        while n < len(body) and body[n] not in _META:
            n += 1
        if n < len(body) and body[n] in '*+?{':
            n -= 1                          # the last literal is quantified, not mandatory
        if n <= 0:
            raise OutOfSubset('re.%s: pattern %r has no mandatory literal prefix' % (which, pat))
        lit, tail = body[:n], body[n:]
        chars = list(s.chars)
        if len(lit) > len(chars):
            return None
        eq = conj(I, [py_eq(I, c, ord(ch)) for c, ch in zip(chars, lit)])
        if eq is False or (eq is not True and not I.path.decide(eq.t)):
            return None
        if tail == '':
            import re
            return _match_obj(re.match(re.escape(lit), lit))
        raise OutOfSubset('re.%s: pattern %r beyond its literal prefix on a symbolic string' % (which, pat))
    return f


def _hex_value(I, c):
    """value of hex digit c, or None; one fork (valid / invalid) instead of one per digit class"""
    if isinstance(c, int):
        ch = chr(c)
        return int(ch, 16) if ch in '0123456789abcdefABCDEF' else None
    t = zterm(c)
    b_lo, b_hi = _bounds(I, t)
    if b_lo is not None and b_hi is not None and 48 <= b_lo and b_hi <= 57:
        return mk_int(t - 48)
    dig = z3.And(t >= 48, t <= 57)
    up = z3.And(t >= 65, t <= 70)
    lo = z3.And(t >= 97, t <= 102)
    if not I.path.decide(z3.Or(dig, up, lo)):
        return None
    return mk_int(z3.If(dig, t - 48, z3.If(up, t - 55, t - 87)))


def _binascii_error(I, msg):
    if 'binascii.Error' not in M._EXC:
        M._EXC['binascii.Error'] = ExcClass('Error', [M.exc_class(I, 'ValueError')])     # type(e).__name__ is 'Error'
    raise PyRaise(ExcVal(M._EXC['binascii.Error'], (msg,)))


def _unhexlify(I, a, k):
    s = a[0]
    if isinstance(s, PBytes):
        s = M.bytes_decode(I, s, 'latin-1')
    if isinstance(s, str):
        import binascii
        try:
            return PBytes(list(binascii.unhexlify(s)))
        except (binascii.Error, ValueError) as e:
            _binascii_error(I, str(e))
    if not isinstance(s, PStr):
        raise OutOfSubset('unhexlify(%r)' % (s,))
    chars = list(s.chars)
    if len(chars) % 2:
        _binascii_error(I, 'Odd-length string')
    out = []
    for i in range(0, len(chars), 2):
        hi = _hex_value(I, chars[i])
        lo = _hex_value(I, chars[i + 1]) if hi is not None else None
        if hi is None or lo is None:
            _binascii_error(I, 'Non-hexadecimal digit found')
        out.append(binop(I, '+', binop(I, '*', hi, 16), lo))
    return PBytes(out)


def strip_chars(I, chars, name, strip_set):
    """str.strip/lstrip/rstrip(chars) with a concrete set; symbolic edge characters fork"""
    codes = tuple(sorted(set(ord(ch) for ch in strip_set)))
    lo, hi = 0, len(chars)
    if not codes:
        return _mkstr(chars)
    if name in ('strip', 'lstrip'):
        while lo < hi and _char_in(I, chars[lo], codes):
            lo += 1
    if name in ('strip', 'rstrip'):
        while hi > lo and _char_in(I, chars[hi - 1], codes):
            hi -= 1
    return _mkstr(chars[lo:hi])


def pad_str(I, v, spec):
    """format(PStr, '[[fill]align][width]') or None when the spec is of another form"""
    import re
    m = re.fullmatch(r'(?:(.)?([<>^]))?(\d*)', spec)
    if not m or (m.group(3) or '').startswith('0'):
        return None
    fill, align, width = m.group(1) or ' ', m.group(2) or '<', int(m.group(3) or 0)
    chars = list(v.chars) if isinstance(v, PStr) else [ord(ch) for ch in v]
    pad = max(0, width - len(chars))
    if align == '<':
        left = 0
    elif align == '>':
        left = pad
    else:
        left = pad // 2
    return _mkstr([ord(fill)] * left + chars + [ord(fill)] * (pad - left))


def install(EXTERNALS, _fn):
    EXTERNALS['urllib.parse.urlparse'] = _fn('urlparse', _urlparse)
    EXTERNALS['urllib.parse.parse_qs'] = _fn('parse_qs', _parse_qs)
    EXTERNALS['re.search'] = _fn('re.search', _re_find('search'))
    EXTERNALS['re.match'] = _fn('re.match', _re_find('match'))
    # same semantics as models2._unhexlify, but one validity fork per digit instead of one per digit class
    # (3**10 paths for a 10 digit address otherwise) and the exception is binascii.Error as in CPython
    EXTERNALS['binascii.unhexlify'] = _fn('unhexlify', _unhexlify)
