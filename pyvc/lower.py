"""Sound lowering of bounded integer queries to fixed-width bit-vectors.

A query over Int variables that all carry finite declared bounds is translated to bit-vector
arithmetic of a width W chosen by interval analysis so that *no* sub-term can leave the signed
W-bit range.  Under that condition two's complement arithmetic coincides with mathematical
integer arithmetic, so the lowered query is equisatisfiable with the original; if any sub-term
cannot be bounded (unbounded variable, division by a non-constant, sequence terms ...) the
lowering gives up (returns None) and the caller keeps the original verdict.
"""
import z3

K = z3


class GiveUp(Exception):
    pass


def _real_as_int(t):
    """(C13) Int term equal to the Real term t when t is built from ToReal(int), integer constants, +, - and *
    (z3's simplifier rewrites ToReal(a * b) into ToReal(a) * ToReal(b)); None otherwise."""
    if z3.is_rational_value(t):
        return z3.IntVal(t.numerator_as_long()) if t.denominator_as_long() == 1 else None
    if not z3.is_app(t):
        return None
    k = t.decl().kind()
    if k == z3.Z3_OP_TO_REAL:
        return t.arg(0)
    if k in (z3.Z3_OP_ADD, z3.Z3_OP_SUB, z3.Z3_OP_MUL, z3.Z3_OP_UMINUS):
        ch = [_real_as_int(c) for c in t.children()]
        if any(c is None for c in ch):
            return None
        if k == z3.Z3_OP_UMINUS:
            return -ch[0]
        r = ch[0]
        for c in ch[1:]:
            r = r + c if k == z3.Z3_OP_ADD else (r - c if k == z3.Z3_OP_SUB else r * c)
        return r
    return None


def _bounds_from(assertions):
    lo, hi = {}, {}

    def visit(a):
        if z3.is_and(a):
            for ch in a.children():
                visit(ch)
            return
        if z3.is_app(a) and a.num_args() == 2:
            k = a.decl().kind()
            x, y = a.arg(0), a.arg(1)
            if z3.is_int_value(x) and z3.is_const(y) and z3.is_int(y) and not z3.is_int_value(y):
                # c <= y etc.
                flip = {z3.Z3_OP_LE: z3.Z3_OP_GE, z3.Z3_OP_GE: z3.Z3_OP_LE, z3.Z3_OP_LT: z3.Z3_OP_GT, z3.Z3_OP_GT: z3.Z3_OP_LT}
                if k in flip:
                    k = flip[k]
                    x, y = y, x
            if z3.is_const(x) and z3.is_int(x) and not z3.is_int_value(x) and z3.is_int_value(y):
                c = y.as_long()
                n = x.decl().name()
                if k == z3.Z3_OP_LE:
                    hi[n] = min(hi.get(n, c), c)
                elif k == z3.Z3_OP_LT:
                    hi[n] = min(hi.get(n, c - 1), c - 1)
                elif k == z3.Z3_OP_GE:
                    lo[n] = max(lo.get(n, c), c)
                elif k == z3.Z3_OP_GT:
                    lo[n] = max(lo.get(n, c + 1), c + 1)
                elif k == z3.Z3_OP_EQ:
                    lo[n] = max(lo.get(n, c), c)
                    hi[n] = min(hi.get(n, c), c)
        if z3.is_not(a):
            b = a.arg(0)
            if z3.is_app(b) and b.num_args() == 2:
                neg = {z3.Z3_OP_LE: '>', z3.Z3_OP_LT: '>=', z3.Z3_OP_GE: '<', z3.Z3_OP_GT: '<='}.get(b.decl().kind())
                if neg and z3.is_const(b.arg(0)) and not z3.is_int_value(b.arg(0)) and z3.is_int_value(b.arg(1)) and z3.is_int(b.arg(0)):
                    x, c = b.arg(0), b.arg(1).as_long()
                    visit({'>': x > c, '>=': x >= c, '<': x < c, '<=': x <= c}[neg])
    for a in assertions:
        visit(a)
    return lo, hi


class Lowerer:
    def __init__(self, assertions):
        self.assertions = assertions
        self.lo, self.hi = _bounds_from(assertions)
        self.iv = {}
        self.cache = {}
        self.W = None

    # ---------------- interval analysis
    def interval(self, t):
        key = t.get_id()
        if key in self.iv:
            return self.iv[key]
        r = self._interval(t)
        self.iv[key] = r
        return r

    def _interval(self, t):
        if z3.is_int_value(t):
            v = t.as_long()
            return (v, v)
        if not z3.is_app(t):
            raise GiveUp('non-app')
        k = t.decl().kind()
        if z3.is_const(t):
            n = t.decl().name()
            if n in self.lo and n in self.hi:
                return (self.lo[n], self.hi[n])
            raise GiveUp('unbounded int variable %s' % n)
        ch = t.children()
        if k == z3.Z3_OP_ADD:
            ivs = [self.interval(c) for c in ch]
            return (sum(i[0] for i in ivs), sum(i[1] for i in ivs))
        if k == z3.Z3_OP_SUB:
            ivs = [self.interval(c) for c in ch]
            lo, hi = ivs[0]
            for a, b in ivs[1:]:
                lo, hi = lo - b, hi - a
            return (lo, hi)
        if k == z3.Z3_OP_UMINUS:
            a, b = self.interval(ch[0])
            return (-b, -a)
        if k == z3.Z3_OP_MUL:
            lo, hi = self.interval(ch[0])
            for c in ch[1:]:
                a, b = self.interval(c)
                cands = [lo * a, lo * b, hi * a, hi * b]
                lo, hi = min(cands), max(cands)
            return (lo, hi)
        if k == z3.Z3_OP_IDIV:
            if not z3.is_int_value(ch[1]) or ch[1].as_long() <= 0:
                raise GiveUp('division by non-constant or non-positive')
            c = ch[1].as_long()
            a, b = self.interval(ch[0])
            return (a // c, b // c)
        if k == z3.Z3_OP_MOD:
            if not z3.is_int_value(ch[1]) or ch[1].as_long() <= 0:
                raise GiveUp('mod by non-constant or non-positive')
            self.interval(ch[0])
            return (0, ch[1].as_long() - 1)
        if k == z3.Z3_OP_ITE:
            a, b = self.interval(ch[1])
            c, d = self.interval(ch[2])
            self.scan_bool(ch[0])
            return (min(a, c), max(b, d))
        if k in (getattr(z3, 'Z3_OP_BV2INT', -1), getattr(z3, 'Z3_OP_UBV2INT', -2)):
            self.scan_other(ch[0])
            return (0, (1 << ch[0].size()) - 1)
        if k == getattr(z3, 'Z3_OP_SBV2INT', -3):
            self.scan_other(ch[0])
            w = ch[0].size()
            return (-(1 << (w - 1)), (1 << (w - 1)) - 1)
        raise GiveUp('int operator %s' % t.decl().name())

    def _as_int(self, t):
        """Int term of an integer-valued Real term (cached, so that the interval pass and the translation see one AST)"""
        key = ('ri', t.get_id())
        if key not in self.cache:
            self.cache[key] = _real_as_int(t)
        return self.cache[key]

    def scan_bool(self, t):
        for c in t.children():
            self.scan_any(c)

    def scan_other(self, t):
        for c in t.children():
            self.scan_any(c)

    def scan_any(self, t):
        if z3.is_int(t):
            self.interval(t)
        elif z3.is_real(t):
            if z3.is_app(t) and t.decl().kind() == z3.Z3_OP_TO_REAL:
                self.interval(t.arg(0))
            elif z3.is_rational_value(t):
                pass
            elif _real_as_int(t) is not None:
                self.interval(self._as_int(t))
            else:
                raise GiveUp('real term')
        elif z3.is_seq(t) or z3.is_array(t):
            raise GiveUp('sequence/array term')
        elif z3.is_quantifier(t):
            raise GiveUp('quantifier')
        else:
            for c in t.children():
                self.scan_any(c)

    # ---------------- translation
    def bv(self, t):
        key = t.get_id()
        if key in self.cache:
            return self.cache[key]
        r = self._bv(t)
        self.cache[key] = r
        return r

    def _bv(self, t):
        W = self.W
        if z3.is_int_value(t):
            return z3.BitVecVal(t.as_long(), W)
        k = t.decl().kind()
        if z3.is_const(t):
            return z3.BitVec('bv!' + t.decl().name(), W)
        ch = t.children()
        if k == z3.Z3_OP_ADD:
            r = self.bv(ch[0])
            for c in ch[1:]:
                r = r + self.bv(c)
            return r
        if k == z3.Z3_OP_SUB:
            r = self.bv(ch[0])
            for c in ch[1:]:
                r = r - self.bv(c)
            return r
        if k == z3.Z3_OP_UMINUS:
            return -self.bv(ch[0])
        if k == z3.Z3_OP_MUL:
            r = self.bv(ch[0])
            for c in ch[1:]:
                r = r * self.bv(c)
            return r
        if k == z3.Z3_OP_IDIV:
            a = self.bv(ch[0])
            c = ch[1].as_long()
            lo, hi = self.interval(ch[0])
            if c >= (1 << (W - 1)):
                # the divisor does not fit into W signed bits (it is not part of the interval analysis), BitVecVal(c, W) would
                # wrap (to 0 for c = 2**32, W = 10); |dividend| < 2**(W-2) <= c, so the floor quotient is 0 or -1
                zero = z3.BitVecVal(0, W)
                return zero if lo >= 0 else z3.If(a < zero, z3.BitVecVal(-1, W), zero)
            cb = z3.BitVecVal(c, W)
            if lo >= 0:
                if c & (c - 1) == 0:
                    return z3.LShR(a, c.bit_length() - 1)
                return z3.UDiv(a, cb)
            q = a / cb          # bvsdiv, truncating
            r = z3.SRem(a, cb)
            return z3.If(r < 0, q - 1, q)
        if k == z3.Z3_OP_MOD:
            a = self.bv(ch[0])
            c = ch[1].as_long()
            lo, hi = self.interval(ch[0])
            cb = z3.BitVecVal(c, W)
            if c & (c - 1) == 0:
                # two's complement: low bits are the non-negative remainder for every sign
                return a & z3.BitVecVal(c - 1, W)
            if lo >= 0:
                return z3.URem(a, cb)
            r = z3.SRem(a, cb)
            return z3.If(r < 0, r + cb, r)
        if k == z3.Z3_OP_ITE:
            return z3.If(self.boolean(ch[0]), self.bv(ch[1]), self.bv(ch[2]))
        if k in (getattr(z3, 'Z3_OP_BV2INT', -1), getattr(z3, 'Z3_OP_UBV2INT', -2)):
            inner = self.other(ch[0])
            return z3.ZeroExt(W - inner.size(), inner) if inner.size() < W else inner
        if k == getattr(z3, 'Z3_OP_SBV2INT', -3):
            inner = self.other(ch[0])
            return z3.SignExt(W - inner.size(), inner)
        raise GiveUp('bv of %s' % t.decl().name())

    def boolean(self, t):
        key = ('b', t.get_id())
        if key in self.cache:
            return self.cache[key]
        r = self._boolean(t)
        self.cache[key] = r
        return r

    def _boolean(self, t):
        if z3.is_true(t) or z3.is_false(t):
            return t
        k = t.decl().kind()
        ch = t.children()
        if ch and z3.is_int(ch[0]) and k in (z3.Z3_OP_LE, z3.Z3_OP_LT, z3.Z3_OP_GE, z3.Z3_OP_GT, z3.Z3_OP_EQ, z3.Z3_OP_DISTINCT):
            a, b = self.bv(ch[0]), self.bv(ch[1])
            if k == z3.Z3_OP_LE:
                return a <= b
            if k == z3.Z3_OP_LT:
                return a < b
            if k == z3.Z3_OP_GE:
                return a >= b
            if k == z3.Z3_OP_GT:
                return a > b
            if k == z3.Z3_OP_EQ:
                return a == b
            return z3.Distinct(*[self.bv(c) for c in ch])
        return self.other(t)

    def other(self, t):
        """rebuild a non-Int term with lowered children"""
        key = ('o', t.get_id())
        if key in self.cache:
            return self.cache[key]
        if z3.is_int(t):
            raise GiveUp('int term in non-int position: %s' % t.decl().name())
        if z3.is_quantifier(t):
            raise GiveUp('quantifier')
        if not z3.is_app(t) or t.num_args() == 0:
            self.cache[key] = t
            return t
        k = t.decl().kind()
        ch = t.children()
        if k == z3.Z3_OP_INT2BV:
            w = t.size()
            inner = self.bv(ch[0])
            r = z3.Extract(w - 1, 0, inner) if w <= self.W else z3.SignExt(w - self.W, inner)
        elif k == z3.Z3_OP_FPA_TO_FP and len(ch) == 2 and z3.is_real(ch[1]):
            if z3.is_app(ch[1]) and ch[1].decl().kind() == z3.Z3_OP_TO_REAL:
                r = z3.fpSignedToFP(ch[0], self.bv(ch[1].arg(0)), t.sort())
            elif z3.is_rational_value(ch[1]):
                r = t
            elif _real_as_int(ch[1]) is not None:
                r = z3.fpSignedToFP(ch[0], self.bv(self._as_int(ch[1])), t.sort())
            else:
                raise GiveUp('real to fp')
        elif z3.is_bool(t) and ch and z3.is_int(ch[0]):
            r = self._boolean(t)
        else:
            new = []
            for c in ch:
                if z3.is_bool(c):
                    new.append(self.boolean(c))
                elif z3.is_int(c) or z3.is_real(c):
                    raise GiveUp('arith child of %s' % t.decl().name())
                else:
                    new.append(self.other(c))
            r = t.decl()(*new)
        self.cache[key] = r
        return r

    def lower(self):
        for a in self.assertions:
            self.scan_any(a)
        m = 1
        for lo, hi in self.iv.values():
            m = max(m, abs(lo), abs(hi))
        self.W = max(m.bit_length() + 2, 8)
        if self.W > 160:
            raise GiveUp('width %d' % self.W)
        out = [self.boolean(a) for a in self.assertions]
        # declared bounds of variables are among the assertions already
        return out


def lower_query(assertions):
    try:
        lw = Lowerer(assertions)
        return lw.lower(), lw.W
    except GiveUp as e:
        return None, str(e)
    except z3.Z3Exception as e:
        return None, 'z3: %s' % e


def check_lowered(assertions, timeout_ms):
    low, info = lower_query(assertions)
    if low is None:
        return z3.unknown, info
    s = z3.SolverFor('QF_FPBV') if False else z3.Solver()
    s.set('timeout', timeout_ms)
    s.add(*low)
    return s.check(), 'bv%s' % info
