"""Container methods and models of external modules (continuation of models.py)."""
import errno as _errno
import math as _math
import z3

from .values import *
from .core import OutOfSubset, PyRaise, EngineError, Budget
from . import ops, structmodel
from . import models as M
from . import numpy_model as _np        # 1-D numpy arrays (C13 / C16)
from .ops import (zterm, mk_int, mk_bool, zbool, is_intlike, is_floatlike, is_number, is_seq, seq_items, py_eq,
                  compare, binop, conj, disj)


class ExtClass:
    """A class from an external module used as a base class or in isinstance (Thread, ...)."""

    def __init__(self, name):
        self.name = name

    def __repr__(self):
        return '<extclass %s>' % self.name


def method(name, fn):
    return Builtin(name, fn)


# ------------------------------------------------------------------ sequences: mutation helpers

def coerce_iter_for_extend(I, target, val):
    if isinstance(target, PBytearray) or (isinstance(target, SSeq) and target.kind == 'bytearray'):
        if isinstance(val, (str, PStr)):
            I.raise_py('TypeError', "can't concat str to bytearray")
        if isinstance(val, SView):
            if val.kind in ('bytes', 'bytearray') or getattr(val, 'byte_range', False):
                return val
            raise OutOfSubset('extend bytearray with symbolic-length %s' % val.kind)
        if isinstance(val, SSeq):
            if val.kind in ('bytes', 'bytearray'):
                return val
            raise OutOfSubset('extend bytearray with symbolic-length %s' % val.kind)
        if isinstance(val, (PBytes, PBytearray)):
            return val
        if is_number(val) or val is None:
            I.raise_py('TypeError', "can't concat %s to bytearray" % M.type_name(I, val))
        return PBytes([ops.byte_check(I, x) for x in I.iterate_all(val)])
    return val


def seq_extend(I, target, val):
    if isinstance(target, PBytearray):
        val = coerce_iter_for_extend(I, target, val)
        if isinstance(val, SSeq):
            raise OutOfSubset('extend concrete bytearray with symbolic-length bytes')
        if isinstance(val, SView):
            # (added for C18; crashed before) a concrete bytearray extended by an array window of symbolic length becomes, IN PLACE
            # (the holders keep the identical object), the prefixed view <its items> <prefix of val> <window of val>
            pre = list(target.items) + list(val.pre)
            arr, off, ln, br = val.arr, val.off, val.ln, getattr(val, 'byte_range', False)
            target.__dict__.clear()
            target.__class__ = SView
            SView.__init__(target, arr, off, ln, 'bytearray', pre)
            target.byte_range = br
            return
        target.items.extend(list(val.items))
        return
    if isinstance(val, SSeq):
        raise OutOfSubset('extend list with symbolic-length sequence')
    if is_number(val) or val is None:
        I.raise_py('TypeError', "'%s' object is not iterable" % M.type_name(I, val))
    target.items.extend(I.iterate_all(val))


def set_slice(I, o, sl, v):
    n = len(o.items)
    lo = ops.concretize_bound(I, sl.lo, n)
    hi = ops.concretize_bound(I, sl.hi, n)
    lo, hi = ops.clamp_slice(I, lo, hi, n)
    new = I.iterate_all(v)
    if isinstance(o, PBytearray):
        new = [ops.byte_check(I, x) for x in new]
    o.items[lo:hi] = new


def list_index_of(I, items, x):
    """first index i with items[i] == x (forks) or None"""
    for i, y in enumerate(items):
        r = py_eq(I, y, x)
        if r is True or (r is not False and I.path.decide(r.t)):
            return i
    return None


# ------------------------------------------------------------------ getattr for non-Obj values

def value_getattr(I, o, name):
    if hasattr(o, 'np_getattr'):        # numpy arrays, scipy Rotation fragment (numpy_model.py)
        return o.np_getattr(I, name)
    if isinstance(o, (PList, PBytearray)):
        return list_method(I, o, name)
    if isinstance(o, SView):
        return sview_method(I, o, name)
    if isinstance(o, SSeq):
        return sseq_method(I, o, name)
    if isinstance(o, PBytes):
        return bytes_method(I, o, name)
    if isinstance(o, (str, PStr)):
        return str_method(I, o, name)
    if isinstance(o, M.NTVal):
        if name in o.ntc.fields:
            return o[o.ntc.fields.index(name)]
        if name == '_replace':
            def rep(I_, a, k):
                items = list(o)
                for kk, vv in k.items():
                    items[o.ntc.fields.index(kk)] = vv
                return M.NTVal(o.ntc, items)
            return method('_replace', rep)
        if name == '_asdict':
            return method('_asdict', lambda I_, a, k: PDict(list(zip(o.ntc.fields, list(o)))))
    if isinstance(o, tuple):
        if name == 'index':
            def idx(I_, a, k):
                r = list_index_of(I, list(o), a[0])
                if r is None:
                    I.raise_py('ValueError', 'tuple.index(x): x not in tuple')
                return r
            return method('index', idx)
        if name == 'count':
            return method('count', lambda I_, a, k: sum_bools(I, [py_eq(I, y, a[0]) for y in o]))
    if isinstance(o, PDict):
        return dict_method(I, o, name)
    if isinstance(o, PSet):
        return set_method(I, o, name)
    if isinstance(o, ExcVal):
        if name == 'args':
            return o.args
        if name in o.attrs:
            return o.attrs[name]
        if name == '__cause__':
            return o.cause
        if name == 'errno':
            return o.args[0] if o.args else None
        if name == 'with_traceback':
            return method('with_traceback', lambda I_, a, k: o)
        I.raise_py('AttributeError', "'%s' object has no attribute '%s'" % (o.cls.name, name))
    if isinstance(o, ExcClass):
        if name == '__name__':
            return o.name
    if isinstance(o, LockVal):
        return lock_method(I, o, name)
    if isinstance(o, QueueVal):
        return queue_method(I, o, name)
    if isinstance(o, EventVal):
        return event_method(I, o, name)
    if isinstance(o, (SFloat, SReal, float)):
        if name == '__str__':
            return method('__str__', lambda I_, a, k: M.to_str(I, o))
        if name == 'is_integer' and isinstance(o, float):
            return method('is_integer', lambda I_, a, k: o.is_integer())
    if isinstance(o, (int, SInt, bool, SBool)):
        if name == '__str__':
            return method('__str__', lambda I_, a, k: M.to_str(I, o))
        if name == 'to_bytes':
            def tb(I_, a, k):
                length = a[0] if a else k.get('length', 1)
                order = a[1] if len(a) > 1 else k.get('byteorder', 'big')
                signed = k.get('signed', False)
                try:
                    bs = structmodel.int_to_bytes(I, o, length, signed, order == 'big')
                except PyRaise as pr:
                    if pr.exc.cls.name == 'struct.error':
                        I.raise_py('OverflowError', 'int too big to convert')
                    raise
                return PBytes(bs)
            return method('to_bytes', tb)
        if name == 'bit_length' and isinstance(o, int):
            return method('bit_length', lambda I_, a, k: o.bit_length())
        if name == 'bit_length' and isinstance(o, SInt):
            def bl(I_, a, k):
                kb = ops.known_bits(I, o)
                if kb is None:
                    raise OutOfSubset('bit_length of an int without a provable non-negative bound')
                t = z3.IntVal(0)
                for j in range(1, kb + 1):
                    t = z3.If(o.t >= (1 << (j - 1)), j, t)
                return mk_int(t)
            return method('bit_length', bl)
    if isinstance(o, M.NTClass):
        if name == '_fields':
            return tuple(o.fields)
        if name == '_make':
            return method('_make', lambda I_, a, k: M.NTVal(o, I.iterate_all(a[0])))
    if isinstance(o, BuiltinType):
        if o.name == 'int' and name == 'from_bytes':
            def fb(I_, a, k):
                order = a[1] if len(a) > 1 else k.get('byteorder', 'big')
                signed = k.get('signed', False)
                return structmodel.bytes_to_int(I, seq_items(a[0]), signed, order == 'big')
            return method('from_bytes', fb)
        if o.name == 'bytes' and name == 'fromhex':
            def fh(I_, a, k):
                if isinstance(a[0], str):
                    try:
                        return PBytes(list(bytes.fromhex(a[0])))
                    except ValueError as e:
                        I.raise_py('ValueError', str(e))
                raise OutOfSubset('bytes.fromhex symbolic')
            return method('fromhex', fh)
        if o.name == 'dict' and name == 'fromkeys':
            return method('fromkeys', lambda I_, a, k: PDict([(x, a[1] if len(a) > 1 else None) for x in I.iterate_all(a[0])]))
        if o.name == 'str' and name == 'join':
            return method('join', lambda I_, a, k: I.call(str_method(I, a[0], 'join'), [a[1]], {}))
    if isinstance(o, GenIter):
        if name == '__next__':
            def nx(I_, a, k):
                try:
                    return o.next_fn()
                except StopIter:
                    I.raise_py('StopIteration')
            return method('__next__', nx)
    if isinstance(o, BoundMethod):
        if name == '__self__':
            return o.self_obj
        if name == '__func__':
            return o.func
        if name == '__name__':
            return o.func.node.name
    if isinstance(o, FuncVal):
        if name == '__name__':
            return o.node.name
    if o is None:
        I.raise_py('AttributeError', "'NoneType' object has no attribute '%s'" % name)
    if isinstance(o, Opaque):
        raise OutOfSubset('attribute %s of %r' % (name, o))
    if isinstance(o, ExtClass):
        r = external_class_attr(I, o, name)
        if r is not None:
            return r
    if (is_number(o) and not is_sym(o)) or isinstance(o, tuple):
        I.raise_py('AttributeError', "'%s' object has no attribute '%s'" % (M.type_name(I, o), name))
    raise OutOfSubset('attribute %s of %r' % (name, o))


def sum_bools(I, bs):
    acc = 0
    for b in bs:
        if b is True:
            acc = binop(I, '+', acc, 1)
        elif b is False:
            pass
        else:
            acc = binop(I, '+', acc, mk_int(z3.If(b.t, 1, 0)))
    return acc


def list_method(I, o, name):
    isba = isinstance(o, PBytearray)

    def append(I_, a, k):
        x = a[0]
        if isba:
            x = ops.byte_check(I, x)
        o.items.append(x)

    def extend(I_, a, k):
        seq_extend(I, o, a[0])

    def pop(I_, a, k):
        if not o.items:
            I.raise_py('IndexError', 'pop from empty %s' % o.kind)
        if a and getattr(o, 'is_deque', False):
            I.raise_py('TypeError', 'deque.pop() takes no arguments (%d given)' % len(a))      # a deque is no list (see _deque)
        idx = a[0] if a else -1
        j = ops.norm_index(I, o, idx, len(o.items))
        if not isinstance(j, int):
            for kk in range(len(o.items)):
                if I.path.decide(j == kk):
                    j = kk
                    break
        return o.items.pop(j)

    def remove(I_, a, k):
        i = list_index_of(I, o.items, a[0])
        if i is None:
            I.raise_py('ValueError', 'list.remove(x): x not in list')
        del o.items[i]

    def insert(I_, a, k):
        idx = a[0]
        if not isinstance(idx, int):
            raise OutOfSubset('insert at symbolic index')
        x = ops.byte_check(I, a[1]) if isba else a[1]
        o.items.insert(idx, x)

    def index(I_, a, k):
        i = list_index_of(I, o.items, a[0])
        if i is None:
            I.raise_py('ValueError', 'x not in list')
        return i

    def find(I_, a, k):
        sub = a[0]
        subs = seq_items(sub) if not is_intlike(sub) else [sub]
        n, m = len(o.items), len(subs)
        for i in range(0, n - m + 1):
            r = conj(I, [py_eq(I, o.items[i + j], subs[j]) for j in range(m)])
            if r is True or (r is not False and I.path.decide(r.t)):
                return i
        return -1

    def count(I_, a, k):
        return sum_bools(I, [py_eq(I, y, a[0]) for y in o.items])

    def clear(I_, a, k):
        del o.items[:]

    def copy(I_, a, k):
        return type(o)(list(o.items))

    def reverse(I_, a, k):
        o.items.reverse()

    def sort(I_, a, k):
        if k:
            raise OutOfSubset('sort with key/reverse')
        if not any(is_sym(x) for x in o.items):
            try:
                o.items.sort()
            except TypeError as e:
                I.raise_py('TypeError', str(e))
            return
        if not all(is_intlike(x) for x in o.items) or len(o.items) > 6:
            raise OutOfSubset('sort of symbolic list (only short int lists are modelled)')
        # compare-exchange network (bubble sort); values are merged with ite, no forking
        its = [zterm(x) for x in o.items]
        n = len(its)
        for i in range(n):
            for j in range(n - 1 - i):
                x, y = its[j], its[j + 1]
                its[j], its[j + 1] = z3.If(x <= y, x, y), z3.If(x <= y, y, x)
        o.items[:] = [mk_int(t) for t in its]

    def decode(I_, a, k):
        return M.bytes_decode(I, o, a[0] if a else k.get('encoding', 'utf-8'))

    def hexm(I_, a, k):
        if all(isinstance(x, int) for x in o.items):
            return bytes(o.items).hex()
        raise OutOfSubset('hex of symbolic bytes')

    tbl = {'append': append, 'extend': extend, 'pop': pop, 'remove': remove, 'insert': insert, 'index': index,
           'count': count, 'clear': clear, 'copy': copy, 'reverse': reverse,
           'popleft': lambda I_, a, k: (o.items.pop(0) if o.items else I.raise_py('IndexError', 'pop from an empty deque'))}
    if isba:
        tbl.update({'find': find, 'decode': decode, 'hex': hexm})
    else:
        tbl['sort'] = sort
    if name in tbl:
        return method(o.kind + '.' + name, tbl[name])
    I.raise_py('AttributeError', "'%s' object has no attribute '%s'" % (o.kind, name))


def sseq_method(I, o, name):
    if name == 'append' and o.kind in ('list', 'bytearray'):
        def append(I_, a, k):
            x = ops.byte_check(I, a[0]) if o.kind == 'bytearray' else a[0]
            o.t = z3.Concat(o.t, z3.Unit(zterm(x)))
        return method('append', append)
    if name == 'extend' and o.kind in ('list', 'bytearray'):
        def extend(I_, a, k):
            v = coerce_iter_for_extend(I, o, a[0])
            o.t = z3.Concat(o.t, ops.seq_term(v))
        return method('extend', extend)
    if name == 'pop' and o.kind in ('list', 'bytearray'):
        def pop(I_, a, k):
            n = z3.Length(o.t)
            if not I.path.decide(n > 0):
                I.raise_py('IndexError', 'pop from empty list')
            idx = a[0] if a else -1
            if idx == 0:
                x = mk_int(o.t[0])
                o.t = z3.SubSeq(o.t, 1, n - 1)
                return x
            if idx == -1:
                x = mk_int(o.t[n - 1])
                o.t = z3.SubSeq(o.t, 0, n - 1)
                return x
            raise OutOfSubset('pop(i) on symbolic sequence')
        return method('pop', pop)
    raise OutOfSubset('method %s on symbolic-length %s' % (name, o.kind))


def sview_method(I, o, name):
    if name == 'append' and o.kind in ('list', 'bytearray'):
        def append(I_, a, k):
            x = ops.byte_check(I, a[0]) if o.kind == 'bytearray' else a[0]
            nxt = z3.Select(o.arr, z3.simplify(ops.zi(o.off) + ops.zi(o.ln)))
            if I.path.must(zterm(x) == nxt):
                o.ln = z3.simplify(ops.zi(o.ln) + 1)        # the appended item is the array element right after the window
                return None
            if I.path.must(ops.zi(o.ln) == 0):
                o.pre.append(x)
                return None
            raise OutOfSubset('append to a symbolic-length view of an item that is not the next element of its array')
        return method('append', append)
    if name == 'decode':
        raise OutOfSubset('decode of a symbolic-length view')
    raise OutOfSubset('method %s on symbolic-length %s view' % (name, o.kind))


def bytes_method(I, o, name):
    items = list(o.items)

    def decode(I_, a, k):
        return M.bytes_decode(I, o, a[0] if a else k.get('encoding', 'utf-8'))

    def find(I_, a, k):
        sub = a[0]
        subs = seq_items(sub) if not is_intlike(sub) else [sub]
        n, m = len(items), len(subs)
        for i in range(0, n - m + 1):
            r = conj(I, [py_eq(I, items[i + j], subs[j]) for j in range(m)])
            if r is True or (r is not False and I.path.decide(r.t)):
                return i
        return -1

    def index(I_, a, k):
        r = find(I_, a, k)
        if r == -1:
            I.raise_py('ValueError', 'subsection not found')
        return r

    def split(I_, a, k):
        sep = a[0] if a else None
        if sep is None:
            raise OutOfSubset('bytes.split() on whitespace')
        seps = seq_items(sep)
        if len(seps) != 1:
            raise OutOfSubset('multi-byte separator')
        parts = [[]]
        for x in items:
            r = py_eq(I, x, seps[0])
            if r is True or (r is not False and I.path.decide(r.t)):
                parts.append([])
            else:
                parts[-1].append(x)
        return PList([PBytes(p) for p in parts])

    def hexm(I_, a, k):
        if all(isinstance(x, int) for x in items):
            return bytes(items).hex()
        raise OutOfSubset('hex of symbolic bytes')

    def count(I_, a, k):
        if is_intlike(a[0]):
            return sum_bools(I, [py_eq(I, y, a[0]) for y in items])
        raise OutOfSubset('bytes.count(sub)')

    def startswith(I_, a, k):
        p = seq_items(a[0])
        if len(p) > len(items):
            return False
        return conj(I, [py_eq(I, x, y) for x, y in zip(items, p)])

    def strip(I_, a, k):
        raise OutOfSubset('bytes.strip')

    tbl = {'decode': decode, 'find': find, 'index': index, 'split': split, 'hex': hexm, 'count': count,
           'startswith': startswith}
    if name in tbl:
        return method('bytes.' + name, tbl[name])
    I.raise_py('AttributeError', "'bytes' object has no attribute '%s'" % name)


def str_method(I, o, name):
    conc = isinstance(o, str)

    def need_concrete(args):
        if not conc or any(not isinstance(x, (str, int, type(None))) for x in args):
            return False
        return True

    def generic(I_, a, k):
        if need_concrete(a) and not k:
            try:
                r = _host_str_call(o, name, a)
            except (ValueError, TypeError, IndexError) as e:
                I.raise_py(type(e).__name__, str(e))
            return _lift(r)
        return sym_str_method(I, o, name, a, k)
    if name in ('startswith', 'endswith', 'split', 'rsplit', 'strip', 'lstrip', 'rstrip', 'upper', 'lower', 'isdigit',
                'replace', 'find', 'rfind', 'index', 'join', 'format', 'encode', 'zfill', 'rjust', 'ljust', 'count',
                'partition', 'rpartition', 'isalpha', 'isalnum', 'title', 'capitalize', 'splitlines', 'isspace',
                '__str__', 'center', 'isnumeric', 'isdecimal', 'lstrip', 'removeprefix', 'removesuffix'):
        return method('str.' + name, generic)
    I.raise_py('AttributeError', "'str' object has no attribute '%s'" % name)


def _host_str_call(o, name, a):
    return __import__('builtins').getattr(o, name)(*a)


def _lift(r):
    if isinstance(r, list):
        return PList([_lift(x) for x in r])
    if isinstance(r, tuple):
        return tuple(_lift(x) for x in r)
    if isinstance(r, bytes):
        return PBytes(list(r))
    return r


def sym_str_method(I, o, name, a, k):
    chars = M.str_chars(o)
    if name == 'encode':
        return M.str_encode(I, o, a[0] if a else k.get('encoding', 'utf-8'))
    if name == '__str__':
        return o
    if name == 'join':
        parts = I.iterate_all(a[0])
        out = ''
        for i, p in enumerate(parts):
            if not isinstance(p, (str, PStr)):
                if isinstance(p, Opaque):
                    return M.OpaqueStr('join')
                I.raise_py('TypeError', 'sequence item %d: expected str instance' % i)
            if i:
                out = ops.seq_concat(I, out, o)
            out = ops.seq_concat(I, out, p)
        return out
    if name == 'format':
        return str_format(I, o, a, k)
    if name in ('startswith', 'endswith'):
        p = a[0]
        if isinstance(p, tuple):
            return disj(I, [I.truth(sym_str_method(I, o, name, [x], k)) for x in p])
        pc = M.str_chars(p)
        if len(pc) > len(chars):
            return False
        seg = chars[:len(pc)] if name == 'startswith' else chars[len(chars) - len(pc):]
        return conj(I, [py_eq(I, x, y) for x, y in zip(seg, pc)])
    if name == 'isdigit':
        if not chars:
            return False
        return conj(I, [mk_bool(z3.And(zterm(c) >= 48, zterm(c) <= 57)) if not isinstance(c, int) else chr(c).isdigit() for c in chars])
    if name == 'upper' or name == 'lower':
        out = []
        for c in chars:
            if isinstance(c, int):
                out.append(ord(chr(c).upper() if name == 'upper' else chr(c).lower()))
            else:
                t = zterm(c)
                if not I.path.must(t < 128):
                    raise OutOfSubset('case conversion of non-ASCII symbolic characters')
                if name == 'upper':
                    out.append(mk_int(z3.If(z3.And(t >= 97, t <= 122), t - 32, t)))
                else:
                    out.append(mk_int(z3.If(z3.And(t >= 65, t <= 90), t + 32, t)))
        return ops.mk_seq('str', out)
    if name == 'split':
        sep = a[0] if a else k.get('sep')
        maxsplit = a[1] if len(a) > 1 else k.get('maxsplit', -1)
        if sep is None:
            raise OutOfSubset('str.split() on whitespace with symbolic characters')
        sc = M.str_chars(sep)
        if len(sc) != 1:
            raise OutOfSubset('multi-char separator on symbolic string')
        parts = [[]]
        for c in chars:
            r = py_eq(I, c, sc[0])
            if (maxsplit < 0 or len(parts) <= maxsplit) and (r is True or (r is not False and I.path.decide(r.t))):
                parts.append([])
            else:
                parts[-1].append(c)
        return PList([ops.mk_seq('str', p) for p in parts])
    if name == 'rsplit':
        # added for C20 (uri_helper.address_from_env): str.rsplit(sep, maxsplit) with a one-character separator, scanning from the right
        sep = a[0] if a else k.get('sep')
        maxsplit = a[1] if len(a) > 1 else k.get('maxsplit', -1)
        if sep is None or not isinstance(maxsplit, int):
            raise OutOfSubset('str.rsplit() on whitespace / with a symbolic maxsplit on a symbolic string')
        sc = M.str_chars(sep)
        if len(sc) != 1:
            raise OutOfSubset('multi-char separator on symbolic string')
        parts = [[]]
        for c in reversed(chars):
            r = py_eq(I, c, sc[0])
            if (maxsplit < 0 or len(parts) <= maxsplit) and (r is True or (r is not False and I.path.decide(r.t))):
                parts.insert(0, [])
            else:
                parts[0].insert(0, c)
        return PList([ops.mk_seq('str', p) for p in parts])
    if name == 'find' or name == 'index':
        pc = M.str_chars(a[0])
        n, m = len(chars), len(pc)
        for i in range(0, n - m + 1):
            r = conj(I, [py_eq(I, chars[i + j], pc[j]) for j in range(m)])
            if r is True or (r is not False and I.path.decide(r.t)):
                return i
        if name == 'index':
            I.raise_py('ValueError', 'substring not found')
        return -1
    if name == 'replace':
        old, new = M.str_chars(a[0]), M.str_chars(a[1])
        if len(old) != 1:
            raise OutOfSubset('replace of multi-char pattern on symbolic string')
        out = []
        for c in chars:
            r = py_eq(I, c, old[0])
            if r is True or (r is not False and I.path.decide(r.t)):
                out.extend(new)
            else:
                out.append(c)
        return ops.mk_seq('str', out)
    if name == 'strip' and not a:
        # only when no symbolic char can be whitespace (contracts say so) – check
        for c in (chars[:1] + chars[-1:]):
            if not isinstance(c, int):
                t = zterm(c)
                if not I.path.must(z3.And(t > 32, t != 133, t != 160, t < 0x1680)):
                    raise OutOfSubset('strip() with possibly-whitespace symbolic edge characters')
        if all(isinstance(c, int) for c in chars):
            return ''.join(map(chr, chars)).strip()
        # strip concrete whitespace at edges only
        lo, hi = 0, len(chars)
        while lo < hi and isinstance(chars[lo], int) and chr(chars[lo]).isspace():
            lo += 1
        while hi > lo and isinstance(chars[hi - 1], int) and chr(chars[hi - 1]).isspace():
            hi -= 1
        return ops.mk_seq('str', chars[lo:hi])
    if name == 'zfill' or name == 'rjust':
        w = a[0]
        fill = ord('0') if name == 'zfill' else ord(a[1]) if len(a) > 1 else 32
        return ops.mk_seq('str', [fill] * max(0, w - len(chars)) + chars)
    if name == 'count':
        pc = M.str_chars(a[0])
        if len(pc) == 1:
            return sum_bools(I, [py_eq(I, c, pc[0]) for c in chars])
    if name in ('strip', 'lstrip', 'rstrip') and len(a) == 1 and isinstance(a[0], str) and not k:
        from .models_uri import strip_chars     # added for C20: strip(chars) with a concrete character set
        return strip_chars(I, chars, name, a[0])
    raise OutOfSubset('str.%s on symbolic string' % name)


def str_format(I, fmt, a, k):
    if not isinstance(fmt, str):
        raise OutOfSubset('format on symbolic format string')
    import string
    out = ''
    auto = 0
    opaque = False
    for lit, field, spec, conv in string.Formatter().parse(fmt):
        if lit:
            out = ops.seq_concat(I, out, lit) if not opaque else out
        if field is None:
            continue
        if field == '':
            v = a[auto] if auto < len(a) else I.raise_py('IndexError', 'Replacement index out of range')
            auto += 1
        elif field.isdigit():
            v = a[int(field)]
        else:
            head = field.split('.')[0].split('[')[0]
            v = k[head] if head in k else I.raise_py('KeyError', head)
            for attr in field.split('.')[1:]:
                v = I.getattr(v, attr)
        piece = M.format_value(I, v, spec or '', ord(conv) if conv else -1)
        if isinstance(piece, Opaque):
            opaque = True
        elif not opaque:
            out = ops.seq_concat(I, out, piece)
    if opaque:
        return M.OpaqueStr('str.format')
    return out


def dict_method(I, o, name):
    def get(I_, a, k):
        i = I.dict_find(o, a[0])
        if i is None:
            return a[1] if len(a) > 1 else None
        return o.vals[i]

    def pop(I_, a, k):
        i = I.dict_find(o, a[0])
        if i is None:
            if len(a) > 1:
                return a[1]
            raise PyRaise(ExcVal(M.exc_class(I, 'KeyError'), (a[0],)))
        v = o.vals[i]
        del o.keys[i]
        del o.vals[i]
        return v

    def setdefault(I_, a, k):
        i = I.dict_find(o, a[0])
        if i is None:
            I.setitem(o, a[0], a[1] if len(a) > 1 else None)
            return a[1] if len(a) > 1 else None
        return o.vals[i]

    def update(I_, a, k):
        if a:
            src = a[0]
            if isinstance(src, PDict):
                for kk, vv in zip(list(src.keys), list(src.vals)):
                    I.setitem(o, kk, vv)
            else:
                for pair in I.iterate_all(src):
                    kk, vv = I.iterate_all(pair)
                    I.setitem(o, kk, vv)
        for kk, vv in k.items():
            I.setitem(o, kk, vv)

    def clear(I_, a, k):
        del o.keys[:]
        del o.vals[:]

    def view(items_fn):
        # live view semantics: iterate by index over the live dict
        def mk(I_, a, k):
            st = {'i': 0, 'n': len(o.keys)}

            def nxt():
                if len(o.keys) != st['n']:
                    I.raise_py('RuntimeError', 'dictionary changed size during iteration')
                if st['i'] >= len(o.keys):
                    raise StopIter()
                x = items_fn(st['i'])
                st['i'] += 1
                return x
            g = GenIter(nxt)
            g.live_dict = o
            g.items_fn = items_fn
            return g
        return mk
    tbl = {'get': get, 'pop': pop, 'setdefault': setdefault, 'update': update, 'clear': clear,
           'keys': view(lambda i: o.keys[i]), 'values': view(lambda i: o.vals[i]),
           'items': view(lambda i: (o.keys[i], o.vals[i])),
           'copy': lambda I_, a, k: PDict(list(zip(o.keys, o.vals)))}
    if name in tbl:
        return method('dict.' + name, tbl[name])
    I.raise_py('AttributeError', "'dict' object has no attribute '%s'" % name)


def set_method(I, o, name):
    def add(I_, a, k):
        M.set_add(I, o, a[0])

    def remove(I_, a, k):
        i = list_index_of(I, o.items, a[0])
        if i is None:
            raise PyRaise(ExcVal(M.exc_class(I, 'KeyError'), (a[0],)))
        del o.items[i]

    def discard(I_, a, k):
        i = list_index_of(I, o.items, a[0])
        if i is not None:
            del o.items[i]
    tbl = {'add': add, 'remove': remove, 'discard': discard, 'clear': lambda I_, a, k: o.items.clear(),
           'copy': lambda I_, a, k: PSet(list(o.items))}
    if name in tbl:
        return method('set.' + name, tbl[name])
    raise OutOfSubset('set.%s' % name)


# ------------------------------------------------------------------ threading / queue primitives (sequential)

def lock_method(I, o, name):
    def acquire(I_, a, k):
        blocking = a[0] if a else k.get('blocking', True)
        held = o.held
        h = held if isinstance(held, bool) else I.path.decide(held.t)
        if h:
            if I.decide(blocking) and 'timeout' not in k and len(a) < 2:
                hook = getattr(o, 'on_block', None)
                if hook is not None:
                    # explicit schedule (c.lock(..., on_block=f)): while this thread waits for the lock the other threads'
                    # actions f() run (once); the holder's release must be among them, otherwise the wait never ends
                    o.on_block = None
                    hook()
                    h2 = o.held if isinstance(o.held, bool) else I.path.decide(o.held.t)
                    if not h2:
                        o.held = True
                        return True
                # sequential semantics: acquiring a held lock blocks forever
                raise PyRaise(ExcVal(M.exc_class(I, 'Deadlock'), ('acquire of held lock %s' % o.name,)))
            return False
        o.held = True
        return True

    def release(I_, a, k):
        held = o.held
        h = held if isinstance(held, bool) else I.path.decide(held.t)
        if not h:
            I.raise_py('RuntimeError', 'release unlocked lock')
        o.held = False

    def locked(I_, a, k):
        return o.held

    def enter(I_, a, k):
        return acquire(I_, [], {})

    def exit_(I_, a, k):
        release(I_, [], {})
        return False
    tbl = {'acquire': acquire, 'release': release, 'locked': locked, '__enter__': enter, '__exit__': exit_}
    if name in tbl:
        return method('Lock.' + name, tbl[name])
    raise OutOfSubset('Lock.%s' % name)


def queue_method(I, o, name):
    def put(I_, a, k):
        maxsize = getattr(o, 'maxsize', 0)
        if maxsize and len(o.items) >= maxsize:
            block = a[1] if len(a) > 1 else k.get('block', True)
            if I.decide(block) and k.get('timeout') is None and len(a) < 3:
                raise PyRaise(ExcVal(M.exc_class(I, 'Deadlock'), ('put on full queue %s' % o.name,)))
            I.raise_py('queue.Full')
        o.items.append(a[0])

    def get(I_, a, k):
        block = a[0] if a else k.get('block', True)
        timeout = a[1] if len(a) > 1 else k.get('timeout')
        if not o.items:
            if I.decide(block) and timeout is None:
                raise PyRaise(ExcVal(M.exc_class(I, 'Deadlock'), ('get on empty queue %s' % o.name,)))
            I.raise_py('queue.Empty')
        return o.items.pop(0)
    if name == 'queue':
        return PList(o.items) if False else tuple(o.items)
    tbl = {'put': put, 'get': get, 'put_nowait': lambda I_, a, k: put(I_, [a[0], False], {}),
           'get_nowait': lambda I_, a, k: get(I_, [False], {}),
           'empty': lambda I_, a, k: len(o.items) == 0, 'qsize': lambda I_, a, k: len(o.items),
           'full': lambda I_, a, k: bool(getattr(o, 'maxsize', 0)) and len(o.items) >= o.maxsize,
           'task_done': lambda I_, a, k: None}
    if name in tbl:
        return method('Queue.' + name, tbl[name])
    raise OutOfSubset('Queue.%s' % name)


def event_method(I, o, name):
    def set_(I_, a, k):
        o.flag = True

    def clear(I_, a, k):
        o.flag = False

    def wait(I_, a, k):
        f = o.flag
        if f is True:
            return True
        # not set.  Sequential semantics: nobody else will set it, so a wait without timeout blocks for ever
        # (reported as the pseudo exception Deadlock); with a timeout it returns False.
        if not a and 'timeout' not in k:
            if isinstance(f, SBool):
                if I.path.decide(f.t):
                    return True
            raise PyRaise(ExcVal(M.exc_class(I, 'Deadlock'), ('wait on event %s that is never set' % o.name,)))
        if isinstance(f, SBool):
            return f
        return False
    tbl = {'set': set_, 'clear': clear, 'wait': wait, 'is_set': lambda I_, a, k: o.flag, 'isSet': lambda I_, a, k: o.flag}
    if name in tbl:
        return method('Event.' + name, tbl[name])
    raise OutOfSubset('Event.%s' % name)


_EXCS_EXTRA = {}


def _install_extra_exc(I):
    if 'Deadlock' not in M._EXC:
        M._EXC['Deadlock'] = ExcClass('Deadlock', [M.exc_class(I, 'BaseException')])
        M._EXC['StopLoop'] = ExcClass('StopLoop', [M.exc_class(I, 'BaseException')])


# ------------------------------------------------------------------ external modules

def external_module(I, name):
    _install_extra_exc(I)
    m = ModuleVal(name, None)
    return m


def external_attr(I, m, name):
    _install_extra_exc(I)
    key = m.name + '.' + name
    if key in EXTERNALS:
        return EXTERNALS[key](I)
    hook = I.cfg.get('externals', {}).get(key)
    if hook is not None:
        return hook(I)
    if m.name == 'errno' and hasattr(_errno, name):
        return getattr(_errno, name)
    if m.name == 'math' and name in ('pi', 'e', 'inf', 'nan', 'tau'):
        return getattr(_math, name)
    if m.name == 'math':
        return Builtin('math.' + name, lambda I_, a, k, nm=name: math_fn(I_, nm, a))
    return Opaque('external ' + key)


EXTERNALS = {}


def ext(key):
    def deco(fn):
        EXTERNALS[key] = fn
        return fn
    return deco


def _const(v):
    return lambda I: v


def _fn(name, f):
    return lambda I: Builtin(name, f)


EXTERNALS['struct.pack'] = _fn('struct.pack', lambda I, a, k: structmodel.pack(I, a[0], a[1:]))
EXTERNALS['struct.unpack'] = _fn('struct.unpack', lambda I, a, k: structmodel.unpack(I, a[0], a[1]))
EXTERNALS['struct.calcsize'] = _fn('struct.calcsize', lambda I, a, k: structmodel.calcsize(I, a[0]))
EXTERNALS['struct.error'] = lambda I: M.exc_class(I, 'struct.error')
EXTERNALS['queue.Empty'] = lambda I: M.exc_class(I, 'queue.Empty')
EXTERNALS['queue.Full'] = lambda I: M.exc_class(I, 'queue.Full')


def _unpack_from(I, a, k):
    fmt, data = a[0], a[1]
    off = a[2] if len(a) > 2 else k.get('offset', 0)
    size = structmodel.calcsize(I, fmt)
    sl = ops.seq_getitem(I, data, SliceVal(off, binop(I, '+', off, size), None))
    return structmodel.unpack(I, fmt, sl)


EXTERNALS['struct.unpack_from'] = _fn('struct.unpack_from', _unpack_from)


def _mk_lock(I, a, k):
    n = I.path.fresh_name('lock')
    return LockVal(n, False)


EXTERNALS['threading.Lock'] = _fn('threading.Lock', _mk_lock)
EXTERNALS['threading.RLock'] = _fn('threading.RLock', _mk_lock)
EXTERNALS['threading.Event'] = _fn('threading.Event', lambda I, a, k: EventVal(I.path.fresh_name('event'), False))
EXTERNALS['threading.Thread'] = lambda I: THREAD
EXTERNALS['threading.current_thread'] = _fn('threading.current_thread', lambda I, a, k: I.cfg.get('current_thread', Ext('current_thread')))


def _mk_timer(I, a, k):
    t = Ext(I.path.fresh_name('timer'), cls='Timer')
    t.interval = a[0] if a else k.get('interval')
    t.function = a[1] if len(a) > 1 else k.get('function')
    t.t_args = a[2] if len(a) > 2 else k.get('args', ())
    I.trace.append(('Timer', (t.interval, t.function), {'timer': t}))
    return t


EXTERNALS['threading.Timer'] = _fn('threading.Timer', _mk_timer)


def _mk_queue(I, a, k):
    q = QueueVal(I.path.fresh_name('queue'))
    q.maxsize = a[0] if a else k.get('maxsize', 0)
    return q


EXTERNALS['queue.Queue'] = _fn('queue.Queue', _mk_queue)


def _sleep(I, a, k):
    d = a[0]
    I.trace.append(('time.sleep', (d,), {}))
    c = compare(I, '<', d, 0)
    if I.decide(c):
        I.raise_py('ValueError', 'sleep length must be non-negative')
    return None


EXTERNALS['time.sleep'] = _fn('time.sleep', _sleep)


def _time(I, a, k):
    script = getattr(I, 'time_script', None)     # c.virtual_time(clock=[...]): clock readings are contract inputs
    t = script.pop(0) if script else I.fresh_float('time.time')
    last = getattr(I, '_last_time', None)
    if last is not None:
        I.path.assume(I.spec_bool(compare(I, '>=', t, last)))
    I._last_time = t
    I.trace.append(('time.time', (), {'value': t}))
    return t


EXTERNALS['time.time'] = _fn('time.time', _time)
EXTERNALS['time.monotonic'] = _fn('time.monotonic', _time)


def _namedtuple(I, a, k):
    fields = a[1]
    if isinstance(fields, str):
        fields = fields.replace(',', ' ').split()
    else:
        fields = I.iterate_all(fields)
    return M.NTClass(a[0], fields)


EXTERNALS['collections.namedtuple'] = _fn('namedtuple', _namedtuple)


def _copy(I, a, k):
    v = a[0]
    if isinstance(v, Obj):
        o = Obj(v.cls)
        o.attrs = dict(v.attrs)
        return o
    if isinstance(v, (PList, PBytearray)):
        return type(v)(list(v.items))
    if isinstance(v, PDict):
        return PDict(list(zip(v.keys, v.vals)))
    if isinstance(v, (int, float, str, tuple, PBytes, SInt, SFloat, SReal, SBool)) or v is None:
        return v
    raise OutOfSubset('copy.copy(%r)' % (v,))


EXTERNALS['copy.copy'] = _fn('copy.copy', _copy)


def _reduce(I, a, k):
    """functools.reduce(function, iterable[, initial]) over a concrete-length iterable (C14)"""
    items = I.iterate_all(a[1])
    if len(a) > 2:
        acc = a[2]
    else:
        if not items:
            I.raise_py('TypeError', 'reduce() of empty iterable with no initial value')
        acc, items = items[0], items[1:]
    for x in items:
        acc = I.call(a[0], [acc, x], {})
    return acc


EXTERNALS['functools.reduce'] = _fn('functools.reduce', _reduce)


# ---- text files holding one YAML document (C14).  Assumed contract of PyYAML, stated in the evidence:
# yaml.safe_load(yaml.dump(d)) == d for plain data (None/bool/int/float/str, lists, dicts with concrete int or
# str keys; mapping keys come back sorted).  Anything else (tuples, objects, numpy scalars) is out of subset.

def _yaml_plain(I, v):
    if v is None or isinstance(v, (bool, int, float, str, SInt, SBool, SFloat, SReal, PStr)):
        return v
    if isinstance(v, PList):
        return PList([_yaml_plain(I, x) for x in v.items])
    if isinstance(v, PDict):
        ks = list(v.keys)
        if not (all(isinstance(x, str) for x in ks) or all(isinstance(x, int) and not isinstance(x, bool) for x in ks)):
            raise OutOfSubset('yaml document with symbolic or mixed-type mapping keys')
        order = sorted(range(len(ks)), key=lambda i: ks[i])
        return PDict([(ks[i], _yaml_plain(I, v.vals[i])) for i in order])
    raise OutOfSubset('yaml round trip is only assumed for plain data, not %s' % M.type_name(I, v))


def _open(I, a, k):
    name = a[0]
    mode = a[1] if len(a) > 1 else k.get('mode', 'r')
    if not isinstance(name, str) or mode not in ('r', 'w'):
        raise OutOfSubset('open(%r, %r)' % (name, mode))
    fs = I.__dict__.setdefault('_fs', {})
    if mode == 'r' and name not in fs:
        I.raise_py('FileNotFoundError', 2, 'No such file or directory')
    if mode == 'w':
        fs[name] = None         # truncated
    f = Ext('file:' + name, auto=False)
    f.file_name, f.file_mode, f.closed = name, mode, False

    def _exit(I_, a_, k_):
        f.closed = True
        return False
    f.attrs['__enter__'] = Builtin('file.__enter__', lambda I_, a_, k_: f)
    f.attrs['__exit__'] = Builtin('file.__exit__', _exit)
    f.attrs['close'] = Builtin('file.close', _exit)
    I.note_assumption('files: open/yaml.dump/yaml.safe_load modelled as a store of YAML documents; '
                      'yaml.safe_load(yaml.dump(d)) == d assumed for plain data')
    return f


M.BUILTINS.setdefault('open', Builtin('open', _open))


def _yaml_file(I, f, mode):
    if not (isinstance(f, Ext) and getattr(f, 'file_mode', None) == mode) or f.closed:
        raise OutOfSubset('yaml on something that is not an open file in mode %s: %r' % (mode, f))
    return I.__dict__.setdefault('_fs', {})


def _yaml_dump(I, a, k):
    if len(a) != 2 or k:
        raise OutOfSubset('yaml.dump with these arguments')
    fs = _yaml_file(I, a[1], 'w')
    fs[a[1].file_name] = _yaml_plain(I, a[0])
    return None


def _yaml_safe_load(I, a, k):
    fs = _yaml_file(I, a[0], 'r')
    return _yaml_plain(I, fs[a[0].file_name])


def _yaml_error(I):
    if 'yaml.YAMLError' not in M._EXC:
        M._EXC['yaml.YAMLError'] = ExcClass('yaml.YAMLError', [M.exc_class(I, 'Exception')])
    return M._EXC['yaml.YAMLError']


EXTERNALS['yaml.dump'] = _fn('yaml.dump', _yaml_dump)
EXTERNALS['yaml.safe_load'] = _fn('yaml.safe_load', _yaml_safe_load)
EXTERNALS['yaml.YAMLError'] = _yaml_error


def crc32_fn():
    return z3.Function('crc32', ops.IntSeq, z3.IntSort())


def _crc32(I, a, k):
    data = a[0]
    if isinstance(data, (PBytes, PBytearray)) and all(isinstance(x, int) for x in data.items) and len(a) == 1:
        import binascii
        return binascii.crc32(bytes(data.items))
    if len(a) > 1:
        raise OutOfSubset('crc32 with start value')
    if not isinstance(data, (PBytes, PBytearray, SSeq)):
        I.raise_py('TypeError', "a bytes-like object is required, not '%s'" % M.type_name(I, data))
    r = crc32_fn()(ops.seq_term(data))
    I.path.assume(z3.And(r >= 0, r < (1 << 32)))
    I.note_assumption('crc32 is an uninterpreted function of the byte sequence (range 0..2**32-1)')
    return mk_int(r)


EXTERNALS['binascii.crc32'] = _fn('crc32', _crc32)
EXTERNALS['zlib.crc32'] = _fn('crc32', _crc32)


def _unhexlify(I, a, k):
    s = a[0]
    if isinstance(s, PBytes):
        s = M.bytes_decode(I, s, 'latin-1')
    if isinstance(s, str):
        import binascii
        try:
            return PBytes(list(binascii.unhexlify(s)))
        except (binascii.Error, ValueError) as e:
            I.raise_py('ValueError', str(e))
    chars = list(s.chars)
    if len(chars) % 2:
        I.raise_py('ValueError', 'Odd-length string')
    out = []
    for i in range(0, len(chars), 2):
        hi = M.char_digit(I, chars[i], 16)
        lo = M.char_digit(I, chars[i + 1], 16)
        if hi is None or lo is None:
            I.raise_py('ValueError', 'Non-hexadecimal digit found')
        out.append(binop(I, '+', binop(I, '*', hi, 16), lo))
    return PBytes(out)


EXTERNALS['binascii.unhexlify'] = _fn('unhexlify', _unhexlify)


def math_fn(I, name, a):
    if all(not is_sym(x) for x in a):
        try:
            return getattr(_math, name)(*a)
        except (ValueError, OverflowError, ZeroDivisionError) as e:
            I.raise_py(type(e).__name__, str(e))
    x = a[0]
    if name == 'sqrt':
        if I.float_mode == 'R' or isinstance(x, SReal):
            xr = ops.to_real(I, x)
            if I.decide(mk_bool(xr < 0)):
                I.raise_py('ValueError', 'math domain error')
            r = z3.Real(I.path.fresh_name('sqrt'))
            I.path.assume(z3.And(r >= 0, r * r == xr))
            return SReal(r)
        xf = ops.to_fp(I, x)
        if I.decide(mk_bool(z3.fpLT(xf, z3.FPVal(0.0, F64)))):
            I.raise_py('ValueError', 'math domain error')
        return ops.mk_float(z3.fpSqrt(RNE, xf))
    if name == 'fabs':
        return M._abs(I, [M._float(I, [x], {})], {})
    if name in ('floor', 'ceil', 'trunc'):
        if isinstance(x, SInt):
            return x
        if isinstance(x, SReal):
            fl = z3.ToInt(x.t)
            if name == 'floor':
                return mk_int(fl)
            if name == 'ceil':
                return mk_int(-z3.ToInt(-x.t))
            return mk_int(z3.If(x.t >= 0, fl, -z3.ToInt(-x.t)))
        if isinstance(x, SFloat):
            if I.path.decide(z3.Or(z3.fpIsNaN(x.t), z3.fpIsInf(x.t))):
                I.raise_py('ValueError', 'cannot convert float NaN/inf to integer')
            rm = {'floor': z3.RTN(), 'ceil': z3.RTP(), 'trunc': RTZ}[name]
            return mk_int(z3.ToInt(z3.fpToReal(z3.fpRoundToIntegral(rm, x.t))))
    if name == 'isnan':
        if isinstance(x, SFloat):
            return mk_bool(z3.fpIsNaN(x.t))
        return False
    if name == 'isinf':
        if isinstance(x, SFloat):
            return mk_bool(z3.fpIsInf(x.t))
        return False
    if name in ('degrees', 'radians'):
        # CPython: x * (180/pi) resp. x * (pi/180) with precomputed double constants
        c = 180.0 / _math.pi if name == 'degrees' else _math.pi / 180.0
        return binop(I, '*', M._float(I, [x], {}), c)
    if name in ('sin', 'cos', 'tan', 'atan2', 'asin', 'acos', 'atan', 'exp', 'log', 'pow', 'hypot'):
        f = z3.Function('math_' + name, *([z3.RealSort()] * (len(a) + 1)))
        I.note_assumption('math.%s is an uninterpreted function' % name)
        if I.float_mode == 'R':
            return SReal(f(*[ops.to_real(I, v) for v in a]))
        raise OutOfSubset('math.%s in FP mode' % name)
    raise OutOfSubset('math.%s' % name)


def _array_array(I, a, k):
    tc = a[0]
    if tc != 'B':
        raise OutOfSubset('array.array typecode %r' % (tc,))
    items = [ops.byte_check(I, x) for x in I.iterate_all(a[1])] if len(a) > 1 else []
    I.note_assumption("array.array('B') is modelled as a bytearray (differs only in the exception class for out-of-range items)")
    return PBytearray(items)


EXTERNALS['array.array'] = _fn('array.array', _array_array)


def _deque(I, a, k):
    I.note_assumption('collections.deque is modelled as a list (maxlen is not enforced)')
    d = PList(I.iterate_all(a[0]) if a else [])
    d.is_deque = True       # list.pop(i) is a TypeError on a deque
    return d


EXTERNALS['collections.deque'] = _fn('collections.deque', _deque)


def _datetime_cls(I):
    now = Ext('datetime.datetime.now', returns={'()': lambda I_, a, k: Ext('datetime-value')})
    return Ext('datetime.datetime', attrs={'now': now}, auto=False)


EXTERNALS['datetime.datetime'] = _datetime_cls


THREAD = ExtClass('Thread')


def external_class_attr(I, c, name):
    if isinstance(c, ExtClass) and c.name == 'Thread':
        if name == '__init__':
            def init(I_, a, k):
                o = a[0]
                if isinstance(o, Obj):
                    o.attrs.setdefault('_thread_started', False)
                    o.attrs.setdefault('daemon', k.get('daemon', False))
                    if 'target' in k:
                        o.attrs['_target'] = k['target']
                        o.attrs['_args'] = k.get('args', ())
                return None
            return Builtin('Thread.__init__', init)
    return None


def external_class_method(I, c, selfv, name):
    r = external_class_attr(I, c, name)
    if r is not None:
        return Builtin(r.name, lambda I_, a, k: r.fn(I_, [selfv] + list(a), k))
    return None


def has_ext_base(o, extname):
    return any(isinstance(c, ExtClass) and c.name == extname for c in o.cls.mro())


def external_base_attr(I, o, name):
    """attribute of an Obj whose class derives from an external class (Thread)."""
    if has_ext_base(o, 'Thread'):
        nm = 'thread:' + o.cls.name
        if name == 'start':
            def start(I_, a, k):
                I.trace.append((nm + '.start', (o,), {}))
                o.attrs['_thread_started'] = True
            return Builtin('Thread.start', start)
        if name == 'join':
            def join(I_, a, k):
                # a positional time-out is recorded as timeout=, as the native stand-in does (nativectx._install_virtual_env.join)
                I.trace.append((nm + '.join', (o,), dict(k) if not a else dict(k, timeout=a[0])))
            return Builtin('Thread.join', join)
        if name in ('is_alive', 'isAlive'):
            return Builtin('Thread.is_alive', lambda I_, a, k: o.attrs.get('_thread_started', False))
        if name == 'daemon':
            return False
        if name == 'name':
            return nm
        if name == 'setDaemon':
            return Builtin('Thread.setDaemon', lambda I_, a, k: o.attrs.__setitem__('daemon', a[0]))
    return None


def external_init(I, o, args, kwargs):
    if has_ext_base(o, 'Thread'):
        external_class_attr(I, THREAD, '__init__').fn(I, [o] + list(args), kwargs)
        return
    I.raise_py('TypeError', '%s() takes no arguments' % o.cls.name)


def instantiate_special(I, cls, args, kwargs):
    if getattr(cls, '_enum_members', None) is not None:
        return enum_lookup(I, cls, args, kwargs)
    return None


# ------------------------------------------------------------------ enum.Enum (plain Enum only; added for C18)
# Members are singleton Obj instances of the class (identity == equality, as in CPython) carrying
# `name` / `value`; `Cls(value)` returns the member with that value (forks on a symbolic value) or
# raises ValueError.  IntEnum / Flag / auto() / _missing_ / iteration over the class are not modelled.

ENUM = ExtClass('Enum')
EXTERNALS['enum.Enum'] = lambda I: ENUM


def class_created(I, cls):
    """called by Interp.st_ClassDef after the class body has been executed"""
    if not any(isinstance(b, ExtClass) and b.name == 'Enum' for b in cls.mro()):
        return
    members = []
    for c in reversed(cls.mro()):
        if isinstance(c, ClassVal) and c is not cls and getattr(c, '_enum_members', None):
            raise OutOfSubset('subclassing an enumeration with members (%s)' % c.name)
    for name, v in list(cls.attrs.items()):
        if name.startswith('_') or isinstance(v, (FuncVal, PropertyVal, StaticMethod, ClassMethod, ClassVal, Opaque)):
            continue
        if is_sym(v) or not isinstance(v, (int, str, float, tuple)):
            raise OutOfSubset('enum member %s.%s with value %r' % (cls.name, name, v))
        alias = None
        for m in members:
            if type(m.attrs['value']) is type(v) and m.attrs['value'] == v:
                alias = m
                break
        if alias is None:
            alias = Obj(cls)
            alias.attrs.update({'name': name, 'value': v, '_name_': name, '_value_': v})
            members.append(alias)
        cls.attrs[name] = alias
    cls._enum_members = members


M.class_created = class_created


def enum_lookup(I, cls, args, kwargs):
    if len(args) != 1 or kwargs:
        raise OutOfSubset('functional enum API on %s' % cls.name)
    v = args[0]
    if isinstance(v, Obj) and v.cls is cls:
        return v
    for m in cls._enum_members:
        r = py_eq(I, m.attrs['value'], v)
        if r is True or (r is not False and I.path.decide(r.t)):
            return m
    I.raise_py('ValueError', '%s is not a valid %s' % ('<value>' if is_sym(v) or not isinstance(v, (int, str, float)) else repr(v), cls.name))


def call_other(I, f, args, kwargs):
    if isinstance(f, M.NTClass):
        items = list(args)
        for fld in f.fields[len(items):]:
            if fld not in kwargs:
                I.raise_py('TypeError', 'missing field %s' % fld)
            items.append(kwargs[fld])
        if len(items) != len(f.fields):
            I.raise_py('TypeError', '%s() takes %d positional arguments' % (f.name, len(f.fields)))
        return M.NTVal(f, items)
    if isinstance(f, ExtClass):
        if f.name == 'Thread' and I.cfg.get('thread_model') is not None:
            return _model_thread(I, args, kwargs)       # opt-in (c.model_threads), see below
        if f.name == 'Thread':
            t = Ext(I.path.fresh_name('thread'), cls='Thread')
            t.target = kwargs.get('target')
            t.t_args = kwargs.get('args', ())
            I.trace.append(('Thread', (), {'thread': t, 'target': t.target, 'args': t.t_args}))
            return t
    raise OutOfSubset('call of %r' % (f,))


# ------------------------------------------------------------------ opt-in thread model (c.model_threads)
# threading.Thread(target=f, args=a): f(*a) runs exactly once, atomically, at a scheduler-chosen point
# between start() and the return of an (untimed) join(); a thread never joined may still be pending
# when the call under contract returns.  Scheduler points are every start()/join() of a modelled
# thread; at each point the scheduler runs any sequence of pending threads (all sequences are
# explored).  Every choice is a logged symbolic int 'sched!k' so that the native ModelThread
# (nativectx.py) replays the same schedule.  Trace: 'Thread', '<t>.start', '<t>.run', '<t>.end',
# '<t>.uncaught' (an Exception that escaped the target, swallowed as threading does), '<t>.join'.

def _model_thread(I, args, kwargs):
    st = I.cfg['thread_model']
    t = Ext(I.path.fresh_name('thread'), cls='Thread')
    t.target = kwargs.get('target')
    t.t_args = kwargs.get('args', ())
    t.t_kwargs = kwargs.get('kwargs')
    t.state = 'new'
    if args or t.target is None:
        raise OutOfSubset('modelled Thread needs target= and args= keywords')
    I.trace.append(('Thread', (), {'thread': t, 'target': t.target, 'args': t.t_args}))

    def start(I_, a, k):
        if t.state != 'new':
            I.raise_py('RuntimeError', 'threads can only be started once')
        t.state = 'pending'
        st['pending'].append(t)
        _thread_sched_point(I, st, None)

    def join(I_, a, k):
        if t.state == 'new':
            I.raise_py('RuntimeError', 'cannot join thread before it is started')
        timed = (a and a[0] is not None) or k.get('timeout') is not None
        _thread_sched_point(I, st, None if timed else t)
    t.returns = {'start': start, 'join': join, 'is_alive': lambda I_, a, k: t.state == 'pending'}
    return t


def _thread_sched_point(I, st, must):
    while True:
        opts = list(st['pending'])
        if not opts:
            return
        can_stop = must is None or must.state != 'pending' or must not in opts
        n = len(opts) + (1 if can_stop else 0)
        pick = 0
        if n > 1:
            name = I.path.fresh_name('sched')
            d = z3.Int(name)
            I.path.assume(z3.And(d >= 0, d < n))
            if not hasattr(I.path, 'fresh_log'):
                I.path.fresh_log = []
            I.path.fresh_log.append((name, 'int', d))
            pick = n - 1
            for i in range(n - 1):
                if I.path.decide(d == i):
                    pick = i
                    break
        if pick == len(opts):
            return
        t = opts[pick]
        st['pending'].remove(t)
        I.trace.append((t.name + '.run', (), {}))
        kw = {}
        if t.t_kwargs is not None:
            kw = dict(zip(t.t_kwargs.keys, t.t_kwargs.vals))
        try:
            I.call(t.target, I.iterate_all(t.t_args), kw)
        except PyRaise as pr:
            if not pr.exc.cls.is_sub(I.exc_class('Exception')):
                raise
            I.trace.append((t.name + '.uncaught', (pr.exc,), {}))
        t.state = 'done'
        I.trace.append((t.name + '.end', (), {}))


def getitem(I, o, k):
    if isinstance(o, _np.NDArray):
        return _np.getitem(I, o, k)
    if o is None or is_number(o):
        I.raise_py('TypeError', "'%s' object is not subscriptable" % M.type_name(I, o))
    if isinstance(o, RangeVal) and isinstance(k, int):
        return binop(I, '+', o.start, binop(I, '*', k, o.step))
    raise OutOfSubset('subscript of %r' % (o,))


def setitem(I, o, k, v):
    if isinstance(o, _np.NDArray):
        return _np.setitem(I, o, k, v)
    if isinstance(o, SSeq) and o.kind in ('list', 'bytearray'):
        n = z3.Length(o.t)
        t = zterm(k)
        if not I.path.decide(z3.And(t >= 0, t < n)):
            if I.path.decide(z3.And(t < 0, t >= -n)):
                t = t + n
            else:
                I.raise_py('IndexError', 'assignment index out of range')
        if o.kind == 'bytearray':
            v = ops.byte_check(I, v)
        o.t = z3.Concat(z3.SubSeq(o.t, 0, t), z3.Unit(zterm(v)), z3.SubSeq(o.t, t + 1, n - t - 1))
        return
    raise OutOfSubset('item assignment on %r' % (o,))


# ------------------------------------------------------------------ urllib.parse / re / unhexlify models (added for C20)
from . import models_uri as _uri   # noqa: E402
_uri.install(EXTERNALS, _fn)

# ------------------------------------------------------------------ numpy (1-D arrays; added for C13 / C16)
_np.install(EXTERNALS, _fn)
_np.install_c13(EXTERNALS, _fn)       # np.argmax, np.fromiter(dtype=int).astype().tobytes()
_np.install_c16(EXTERNALS, _fn)       # np.ravel, np.concatenate (C16: _calc_residual)


# ------------------------------------------------------------------ builtin map (lazy, as in CPython; added for C13)
def _map(I, a, k):
    if len(a) < 2:
        I.raise_py('TypeError', 'map() must have at least two arguments.')
    f = a[0]
    its = [I.get_iter(x) for x in a[1:]]
    return GenIter(lambda: I.call(f, [it.next_fn() for it in its], {}))


M.BUILTINS.setdefault('map', Builtin('map', _map))
