"""Value domain of the pyvc symbolic interpreter.

Concrete Python values (int, bool, float, str, None, tuple) are used as they are.  Symbolic
scalars wrap z3 terms.  Containers are explicit classes so that identity/aliasing of mutable
objects is the interpreted program's, not the host's.
"""
import z3

# ----------------------------------------------------------------------------- scalars


class SInt:
    __slots__ = ('t',)

    def __init__(self, t):
        self.t = t

    def __repr__(self):
        return 'SInt(%s)' % (self.t,)


class SBool:
    __slots__ = ('t',)

    def __init__(self, t):
        self.t = t

    def __repr__(self):
        return 'SBool(%s)' % (self.t,)


F64 = z3.Float64()
F32 = z3.Float32()
F16 = z3.Float16()
RNE = z3.RNE()
RTZ = z3.RTZ()


class SFloat:
    """IEEE binary64 value (z3 FP term)."""
    __slots__ = ('t',)

    def __init__(self, t):
        self.t = t

    def __repr__(self):
        return 'SFloat(%s)' % (self.t,)


class SReal:
    """Python float treated as a mathematical real (mode R)."""
    __slots__ = ('t',)

    def __init__(self, t):
        self.t = t

    def __repr__(self):
        return 'SReal(%s)' % (self.t,)


SYM_SCALARS = (SInt, SBool, SFloat, SReal)


def is_sym(v):
    return isinstance(v, SYM_SCALARS)


# ----------------------------------------------------------------------------- containers

class PList:
    """Python list. items: host list of values (concrete length)."""
    kind = 'list'

    def __init__(self, items=None):
        self.items = list(items) if items is not None else []

    def __repr__(self):
        return 'PList(%r)' % (self.items,)


class PBytearray:
    """bytearray; every item is an int / SInt known to be in 0..255."""
    kind = 'bytearray'

    def __init__(self, items=None):
        self.items = list(items) if items is not None else []

    def __repr__(self):
        return 'PBytearray(%r)' % (self.items,)


class PBytes:
    """bytes (immutable); items tuple of int / SInt in 0..255."""
    kind = 'bytes'

    def __init__(self, items=()):
        self.items = tuple(items)

    def __repr__(self):
        return 'PBytes(%r)' % (self.items,)


class PStr:
    """str with symbolic characters (concrete length); chars are int / SInt code points."""
    kind = 'str'

    def __init__(self, chars=()):
        self.chars = tuple(chars)

    def __repr__(self):
        return 'PStr(%r)' % (self.chars,)


class SSeq:
    """Sequence of ints with *symbolic* length (z3 Seq(Int)).  kind in bytes/bytearray/list/tuple.
    Mutable kinds are mutated by replacing .t (the holder object keeps identity)."""

    def __init__(self, t, kind):
        self.t = t
        self.kind = kind

    def __repr__(self):
        return 'SSeq(%s,%s)' % (self.kind, self.t)


class SView:
    """Sequence of ints of *symbolic* length represented as a window (offset, length) into an SMT array.
    Slices of a view are views of the same array; adjacent views concatenate to a view.  Lengths and offsets are
    plain integer terms, so the chunking arithmetic of the memory / flash code stays linear.  Mutable kinds are
    mutated by replacing off / ln (the holder keeps identity)."""

    def __init__(self, arr, off, ln, kind, pre=None):
        self.arr, self.off, self.ln, self.kind = arr, off, ln, kind
        self.pre = list(pre) if pre else []      # leading items of concrete count (e.g. a packet header)

    def __repr__(self):
        return 'SView(%s,%r+%s[%s:+%s])' % (self.kind, self.pre, self.arr, self.off, self.ln)


class PDict:
    """dict preserving insertion order; keys may be symbolic (lookup goes through py_eq)."""

    def __init__(self, pairs=None):
        self.keys = []
        self.vals = []
        if pairs:
            for k, v in pairs:
                self.keys.append(k)
                self.vals.append(v)

    def __repr__(self):
        return 'PDict(%r)' % (list(zip(self.keys, self.vals)),)


class PSet:
    def __init__(self, items=None):
        self.items = list(items) if items else []


class Obj:
    """Instance of a class defined in the repository (interpreted)."""

    def __init__(self, cls):
        self.cls = cls
        self.attrs = {}

    def __repr__(self):
        return '<Obj %s %s>' % (self.cls.name, {k: v for k, v in self.attrs.items() if not isinstance(v, Obj)})


class ClassVal:
    def __init__(self, name, bases, module, qualname=None):
        self.name = name
        self.bases = bases
        self.attrs = {}
        self.module = module
        self.qualname = qualname or name

    def mro(self):
        out = [self]
        for b in self.bases:
            if isinstance(b, ClassVal):
                for c in b.mro():
                    if c not in out:
                        out.append(c)
            else:
                if b not in out:
                    out.append(b)
        return out

    def lookup(self, name):
        for c in self.mro():
            if isinstance(c, ClassVal) and name in c.attrs:
                return c.attrs[name], c
        return None, None

    def __repr__(self):
        return '<class %s>' % self.qualname


class FuncVal:
    def __init__(self, node, closure, module, qualname, defaults, kwdefaults, owner=None):
        self.node = node
        self.closure = closure      # enclosing Frame or None
        self.module = module
        self.qualname = qualname
        self.defaults = defaults
        self.kwdefaults = kwdefaults
        self.owner = owner          # ClassVal for methods (for super())

    def __repr__(self):
        return '<function %s>' % self.qualname


class BoundMethod:
    def __init__(self, func, self_obj):
        self.func = func
        self.self_obj = self_obj

    def __repr__(self):
        return '<bound %r of %r>' % (self.func, type(self.self_obj).__name__)


class StaticMethod:
    def __init__(self, func):
        self.func = func


class ClassMethod:
    def __init__(self, func):
        self.func = func


class PropertyVal:
    def __init__(self, fget=None, fset=None):
        self.fget = fget
        self.fset = fset


class Builtin:
    """Host-implemented callable: fn(interp, args, kwargs) -> value."""

    def __init__(self, name, fn):
        self.name = name
        self.fn = fn

    def __repr__(self):
        return '<builtin %s>' % self.name


class BuiltinType(Builtin):
    """A builtin class object (int, str, bytes, ...) - callable and usable in isinstance."""
    pass


class ExcClass:
    """Exception class (builtin or declared in the repository)."""

    def __init__(self, name, bases):
        self.name = name
        self.bases = bases  # list of ExcClass

    def is_sub(self, other):
        if self is other or self.name == other.name:
            return True
        return any(b.is_sub(other) for b in self.bases)

    def __repr__(self):
        return '<exc %s>' % self.name


class ExcVal:
    def __init__(self, cls, args=(), cause=None):
        self.cls = cls
        self.args = tuple(args)
        self.cause = cause
        self.attrs = {}

    def __repr__(self):
        return '<ExcVal %s%r>' % (self.cls.name, self.args)


class ModuleVal:
    def __init__(self, name, path=None):
        self.name = name
        self.path = path
        self.attrs = {}

    def __repr__(self):
        return '<module %s>' % self.name


class Ext:
    """External object or callable (hardware, link, callbacks, other threads' objects).

    Calls are recorded in the ghost trace; results come from `returns` (a dict: method name ->
    value or callable(interp, args, kwargs) producing one).  Attribute reads come from `attrs`;
    unknown attributes yield child Ext objects when `auto` is set."""

    def __init__(self, name, attrs=None, returns=None, auto=True, truthy=True, cls=None):
        self.name = name
        self.attrs = dict(attrs or {})
        self.returns = dict(returns or {})
        self.auto = auto
        self.truthy = truthy
        self.cls = cls          # optional class name for isinstance

    def __repr__(self):
        return '<Ext %s>' % self.name


class Opaque:
    """Value the engine cannot interpret (result of an unmodelled library call).  Any use other
    than passing it around / storing it is out of subset."""

    def __init__(self, what):
        self.what = what

    def __repr__(self):
        return '<Opaque %s>' % self.what


class LockVal:
    """threading.Lock modelled sequentially: a counter that must never be acquired while held
    (that would deadlock) and whose release on an unlocked lock raises RuntimeError."""

    def __init__(self, name='lock', held=False):
        self.name = name
        self.held = held    # bool or SBool


class QueueVal:
    """queue.Queue modelled sequentially as a FIFO list."""

    def __init__(self, name='queue', items=None):
        self.name = name
        self.items = list(items or [])


class EventVal:
    def __init__(self, name='event', flag=False):
        self.name = name
        self.flag = flag


class GenIter:
    """A lazy iterator: next_fn() returns a value or raises StopIter."""

    def __init__(self, next_fn):
        self.next_fn = next_fn


class StopIter(Exception):
    pass


class RangeVal:
    def __init__(self, start, stop, step):
        self.start, self.stop, self.step = start, stop, step


class SliceVal:
    def __init__(self, lo, hi, step):
        self.lo, self.hi, self.step = lo, hi, step


class NoneTypeMarker:
    pass
